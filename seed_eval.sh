#!/bin/sh
# seed_eval.sh <prop> <outdir-with-patch.diff,demo> <pkgs-to-test...>
# Confirms a seeded change in a scratch worktree (compiles, existing tests pass, demo fails with / passes without),
# then applies it to /repo, runs the property's quick check, and undoes it.
GO124=/root/go/pkg/mod/golang.org/toolchain@v0.0.1-go1.24.0.linux-amd64/bin
PATH="$GO124:$PATH"; export PATH GOTOOLCHAIN=local GOFLAGS=-mod=mod GOPROXY=off
prop="$1"; out="$2"; shift 2
wt=/tmp/seedwt_$$
git -C /repo worktree add --detach "$wt" HEAD -q || exit 2
trap 'git -C /repo worktree remove --force "$wt" >/dev/null 2>&1' EXIT
demo_rel=$(cat "$out/demo_path.txt" | tr -d '\n ')
demo_file=$(ls "$out"/*_test.go | head -1)
cd "$wt"
git apply "$out/patch.diff" || { echo "PATCH-DOES-NOT-APPLY"; exit 2; }
go build ./... </dev/null || { echo "DOES-NOT-COMPILE"; exit 2; }
echo "== existing tests with the change: $*"
go test -count=1 -vet=off -timeout 20m "$@" </dev/null 2>&1 | tail -5
cp "$demo_file" "$wt/$demo_rel"
demo_pkg=./$(dirname "$demo_rel")
echo "== demo with the change (must FAIL)"
go test -count=1 -vet=off -timeout 10m -run 'Demo|demo' "$demo_pkg" </dev/null 2>&1 | tail -4
git apply -R "$out/patch.diff"
echo "== demo without the change (must PASS)"
go test -count=1 -vet=off -timeout 10m -run 'Demo|demo' "$demo_pkg" </dev/null 2>&1 | tail -3
cd /verif
echo "== /verif check $prop on the changed tree"
git -C /repo apply "$out/patch.diff" || exit 2
./check "$prop" quick </dev/null 2>&1 | grep -E "VIOLATION|KNOWN|PROOF-LOST|UNSTABLE|property=" | cut -c1-260
git -C /repo checkout -- .
git -C /repo status --short | head -3
# restore the evidence of the unchanged tree (the check above rewrote it on the changed tree)
git -C /verif checkout -- evidence; rm -rf /verif/evidence/replays
