#!/usr/bin/env python3
# Generates MANIFEST.json from props/claims.json (claimed properties with level texts) and
# properties.jsonl (everything not claimed goes to not_applicable with its recorded reason).
import json, os
here = os.path.dirname(os.path.abspath(__file__))
claims = json.load(open(os.path.join(here, "props", "claims.json")))
props = [json.loads(l) for l in open(os.path.join(here, "properties.jsonl"))]
checks, na = [], []
for p in props:
    pid = p["id"]
    c = claims["claimed"].get(pid)
    if c:
        checks.append({
            "property_id": pid,
            "quick_cmd": "./check %s quick" % pid,
            "thorough_cmd": "./check %s thorough" % pid,
            "evidence_file": "/verif/evidence/%s.json" % pid,
            "replay_cmd_template": "./check replay {path}",
            "engine": "govc",
            "level_claimed": {"category": c.get("category", "proof"), "text": c["text"], "design_ref": c.get("design_ref", "DESIGN.md §6 " + pid)},
            "level_note": c["note"],
            "technique": c.get("technique", "contract-based deductive verification: weakest-precondition VCs generated from go/ssa of the real functions against //@ contracts, discharged by z3/cvc5"),
        })
    else:
        na.append({"property_id": pid, "reason": claims["not_applicable"].get(pid, "no obligation of this property is claimed in this revision of the machinery (see DESIGN.md §9)")})
m = {
    "version": 1,
    "setup_cmd": "./check setup",
    "hooks": {
        "guard": "verif",
        "enable": "go/packages load of /repo with -tags=verif (comment-only files zz_contracts_verif.go carry the //@ contracts; they add no code)",
        "baseline_off_cmd": json.load(open("/root/.vp/BASELINE.json"))["cmd"],
        "source_commits": __import__("subprocess").check_output(["git","-C","/repo","log","--format=%h","--grep=^verif:"]).decode().split(),
        "add_only": True,
    },
    "engines": [{"name": "govc", "path": "/verif/govc", "serves_properties": sorted(claims["claimed"].keys()),
                 "kind_free_text": "own verification-condition generator for Go: go/packages + go/ssa (x/tools v0.29.0) -> passive form -> one SMT-LIB query per obligation -> z3 4.8.12 / z3 5.1.0 / cvc5 1.0"}],
    "checks": checks,
    "not_applicable": na,
    "notes": claims.get("notes", ""),
}
json.dump(m, open(os.path.join(here, "MANIFEST.json"), "w"), indent=1)
print("claimed:", [c["property_id"] for c in checks])
