#!/bin/sh
# seed_sweep.sh: applies every stored seeded change to /repo in turn, runs the property's quick
# check and undoes the change. Development tool (not registered); /repo must be clean.
cd "$(dirname "$0")"; V="$(pwd)"
[ -n "$(git -C /repo status --short)" ] && { echo "/repo is not clean"; exit 2; }
for d in seeded/*/; do
  n=$(basename "$d"); p=$(jq -r .property "$d/meta.json")
  git -C /repo apply "$V/$d/patch.diff" || { echo "$n: patch does not apply"; continue; }
  out=$(./check "$p" quick </dev/null 2>&1)
  git -C /repo checkout -- .
  echo "== $n: $(echo "$out" | grep -c '^VIOLATION') violation line(s), $(echo "$out" | grep -c '^PROOF-LOST') proof-lost"
  echo "$out" | grep -E '^(VIOLATION|PROOF-LOST)' | sed 's/replay=.*replays\//  /' | cut -c1-200 | head -4
done
# restore the evidence of the unchanged tree (the checks above rewrote it on changed trees)
git -C "$V" checkout -- evidence; rm -rf "$V/evidence/replays"
