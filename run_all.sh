#!/bin/sh
# Runs every claimed check (tier $1, default quick) against /repo and reports the exit codes.
cd "$(dirname "$0")"
tier="${1:-quick}"
rc=0
for id in $(jq -r '.checks[].property_id' MANIFEST.json); do
  out=$(./check "$id" "$tier" 2>&1 </dev/null); r=$?
  echo "$id rc=$r $(echo "$out" | tail -1)"
  echo "$out" | grep -E "^(VIOLATION|KNOWN-FINDING|UNSTABLE|PROOF-LOST|ERROR)" 
  [ $r -ne 0 ] && rc=1
done
exit $rc
