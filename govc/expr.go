package main

// Translation of contract expressions to SMT terms.

import (
	"fmt"
	"go/constant"
	"go/types"
	"strings"
)

// TV is a typed SMT term.
type TV struct {
	Term string
	Sort string     // SMT sort
	T    types.Type // Go type when the value is a program value (nil for ghost-typed values)
	G    *TypeExpr  // ghost type (set/map) when T == nil and not a basic sort
	Nil  bool       // the untyped nil literal
}

// State maps heap/ghost names to their current SMT terms. Missing entries denote
// the initial constant of that heap.
type State struct {
	m    map[string]string
	b    map[string]string // heap name -> allocation counter at the time of its last write
	bdef string            // bound for heaps not in b (allocation counter after the last call / loop havoc)
	enc  *Enc
}

func (st *State) clone() *State {
	n := &State{m: make(map[string]string, len(st.m)), b: make(map[string]string, len(st.b)), bdef: st.bdef, enc: st.enc}
	for k, v := range st.m {
		n.m[k] = v
	}
	for k, v := range st.b {
		n.b[k] = v
	}
	return n
}

// boundOf: every reference stored in heap h is at most this value.
func (st *State) boundOf(h Heap) string {
	if v, ok := st.b[h.Name]; ok {
		return v
	}
	if st.bdef != "" {
		return st.bdef
	}
	return st.enc.initConst(allocHeap)
}

// resetBounds: a callee (or loop body) may have allocated objects and initialised their
// fields in any heap, so every heap may now hold references up to the current counter.
func (st *State) resetBounds() {
	st.b = map[string]string{}
	st.bdef = st.get(allocHeap)
}

func (st *State) get(h Heap) string {
	st.enc.touch(h)
	if v, ok := st.m[h.Name]; ok {
		return v
	}
	return st.enc.initConst(h)
}

func (st *State) set(h Heap, term string) {
	st.enc.touch(h)
	st.m[h.Name] = term
	if h.Kind != HAlloc {
		if st.b == nil {
			st.b = map[string]string{}
		}
		st.b[h.Name] = st.get(allocHeap)
	}
}

// EvalCtx is the environment in which a contract expression is translated.
type EvalCtx struct {
	enc     *Enc
	pkg     *types.Package // package for resolving unqualified names
	pkgPath string
	st      *State
	old     *State
	vars    map[string]TV
	resolve func(name string, st *State) (TV, bool) // locals at a program point, read in state st
	where   string                                  // for error messages
	depth   int
}

func (c *EvalCtx) errf(format string, a ...interface{}) {
	panic(fmt.Errorf("contract error (%s): %s", c.where, fmt.Sprintf(format, a...)))
}

func (c *EvalCtx) with(vars map[string]TV) *EvalCtx {
	n := *c
	n.vars = map[string]TV{}
	for k, v := range c.vars {
		n.vars[k] = v
	}
	for k, v := range vars {
		n.vars[k] = v
	}
	return &n
}

func (c *EvalCtx) inState(st *State) *EvalCtx {
	n := *c
	n.st = st
	return &n
}

// resolveTypeExpr maps a contract type to a Go type or ghost sort.
func (c *EvalCtx) resolveType(t *TypeExpr) (types.Type, string, *TypeExpr) {
	s := c.enc.ctx.sorts
	switch t.Kind {
	case "name":
		switch t.Name {
		case "int":
			return types.Typ[types.Int], "Int", nil
		case "int64":
			return types.Typ[types.Int64], "Int", nil
		case "bool":
			return types.Typ[types.Bool], "Bool", nil
		case "string":
			return types.Typ[types.String], "String", nil
		case "error":
			return types.Universe.Lookup("error").Type(), "Int", nil
		case "ref":
			return nil, "Int", t
		}
		obj := c.lookupQualified(t.Name)
		if obj == nil {
			c.errf("unknown type %s", t.Name)
		}
		tn, ok := obj.(*types.TypeName)
		if !ok {
			c.errf("%s is not a type", t.Name)
		}
		return tn.Type(), s.SortOf(tn.Type()), nil
	case "ptr":
		et, _, _ := c.resolveType(t.Elem)
		if et == nil {
			c.errf("pointer to ghost type")
		}
		pt := types.NewPointer(et)
		return pt, "Int", nil
	case "slice":
		et, _, _ := c.resolveType(t.Elem)
		if et == nil {
			c.errf("slice of ghost type")
		}
		return types.NewSlice(et), "Slice", nil
	case "iface":
		return types.NewInterfaceType(nil, nil), "Int", nil
	case "gomap":
		return types.NewMap(c.goType(t.Key), c.goType(t.Elem)), "Int", nil
	case "map":
		// ghost map: a total SMT array (value semantics)
		_, ks, _ := c.resolveType(t.Key)
		_, vs, _ := c.resolveType(t.Elem)
		return nil, "(Array " + q(ks) + " " + qs(vs) + ")", t
	case "set":
		_, ks, _ := c.resolveType(t.Key)
		return nil, "(Array " + q(ks) + " Bool)", t
	}
	c.errf("bad type %s", t)
	return nil, "", nil
}

// qs quotes a sort that may be compound.
func qs(s string) string {
	if strings.HasPrefix(s, "(") {
		return s
	}
	return q(s)
}

// goMapType resolves map[K]V written in a contract as a real Go map type.
func (c *EvalCtx) goType(t *TypeExpr) types.Type {
	switch t.Kind {
	case "map", "gomap":
		return types.NewMap(c.goType(t.Key), c.goType(t.Elem))
	case "slice":
		return types.NewSlice(c.goType(t.Elem))
	case "ptr":
		return types.NewPointer(c.goType(t.Elem))
	case "iface":
		return types.NewInterfaceType(nil, nil)
	}
	gt, _, _ := c.resolveType(t)
	if gt == nil {
		c.errf("not a Go type: %s", t)
	}
	return gt
}

func (c *EvalCtx) lookupQualified(name string) types.Object {
	if i := strings.Index(name, "."); i >= 0 {
		alias, n := name[:i], name[i+1:]
		p := c.enc.ctx.findImport(c.pkg, c.pkgPath, alias)
		if p == nil {
			return nil
		}
		return p.Scope().Lookup(n)
	}
	if c.pkg != nil {
		if o := c.pkg.Scope().Lookup(name); o != nil {
			return o
		}
	}
	return types.Universe.Lookup(name)
}

func (c *EvalCtx) boolTerm(e Expr) string {
	v := c.eval(e)
	if v.Sort != "Bool" {
		c.errf("boolean expected: %s", e)
	}
	return v.Term
}

func (c *EvalCtx) eval(e Expr) TV {
	s := c.enc.ctx.sorts
	switch e := e.(type) {
	case *EInt:
		return TV{Term: e.Val, Sort: "Int", T: types.Typ[types.Int]}
	case *EStr:
		return TV{Term: smtString(e.Val), Sort: "String", T: types.Typ[types.String]}
	case *EBool:
		return TV{Term: fmt.Sprint(e.Val), Sort: "Bool", T: types.Typ[types.Bool]}
	case *ENil:
		return TV{Term: "0", Sort: "Int", Nil: true}
	case *EOld:
		if c.old == nil {
			c.errf("old() not allowed here")
		}
		n := *c
		n.st = c.old
		return n.eval(e.X)
	case *EIdent:
		return c.evalIdent(e.Name)
	case *EUnary:
		if e.Op == "&" {
			// address of an address-taken local variable
			id, ok := e.X.(*EIdent)
			if !ok || c.resolve == nil {
				c.errf("& needs a local variable")
			}
			if v, ok := c.resolve("&"+id.Name, c.st); ok {
				return v
			}
			c.errf("%s is not an address-taken local variable here", id.Name)
		}
		x := c.eval(e.X)
		switch e.Op {
		case "!":
			if x.Sort != "Bool" {
				c.errf("! on non-bool %s", e.X)
			}
			return TV{Term: "(not " + x.Term + ")", Sort: "Bool", T: x.T}
		case "-":
			return TV{Term: "(- " + x.Term + ")", Sort: "Int", T: x.T}
		case "*":
			if x.T != nil {
				if pt, ok := x.T.Underlying().(*types.Pointer); ok {
					return c.loadAt(x.Term, pt.Elem())
				}
			}
			c.errf("dereference of non-pointer %s", e.X)
		}
	case *EBinary:
		return c.evalBinary(e)
	case *ESel:
		// package-qualified name?
		if id, ok := e.X.(*EIdent); ok {
			if _, bound := c.vars[id.Name]; !bound {
				isLocal := false
				if c.resolve != nil {
					_, isLocal = c.resolve(id.Name, c.st)
				}
				if p := c.enc.ctx.findImport(c.pkg, c.pkgPath, id.Name); p != nil && !isLocal {
					obj := p.Scope().Lookup(e.Name)
					if obj == nil {
						c.errf("%s.%s not found", id.Name, e.Name)
					}
					return c.evalObject(obj)
				}
			}
		}
		x := c.eval(e.X)
		return c.selectField(x, e.Name)
	case *EIndex:
		x := c.eval(e.X)
		i := c.eval(e.I)
		switch {
		case x.T != nil:
			switch u := x.T.Underlying().(type) {
			case *types.Slice:
				h := s.ElemHeap(u.Elem())
				return TV{Term: fmt.Sprintf("(select (select %s (s.arr %s)) (at (s.off %s) %s))", c.st.get(h), x.Term, x.Term, i.Term), Sort: s.SortOf(u.Elem()), T: u.Elem()}
			case *types.Map:
				if id, ok := e.X.(*EIdent); ok && id.Name == "#range" && i.Sort != s.SortOf(u.Key()) {
					// `#range[j]` written for a range over a slice, and the loop now ranges over a map
					panic(fmt.Errorf("contract structure lost: %s: a loop whose invariant indexes the list it ranges over (#range[%s]) ranges over a map now", c.enc.key, e.I))
				}
				_, hv, _ := s.MapHeaps(u)
				return TV{Term: fmt.Sprintf("(select (select %s %s) %s)", c.st.get(hv), x.Term, i.Term), Sort: s.SortOf(u.Elem()), T: u.Elem()}
			case *types.Pointer:
				if a, ok := u.Elem().Underlying().(*types.Array); ok {
					h := s.ElemHeap(a.Elem())
					return TV{Term: fmt.Sprintf("(select (select %s %s) %s)", c.st.get(h), x.Term, i.Term), Sort: s.SortOf(a.Elem()), T: a.Elem()}
				}
			}
		case x.G != nil && x.G.Kind == "map":
			et, es, eg := c.resolveType(x.G.Elem)
			return TV{Term: "(select " + x.Term + " " + i.Term + ")", Sort: es, T: et, G: eg}
		case x.G != nil && x.G.Kind == "set":
			return TV{Term: "(select " + x.Term + " " + i.Term + ")", Sort: "Bool", T: types.Typ[types.Bool]}
		}
		c.errf("cannot index %s", e.X)
	case *ESlice:
		x := c.eval(e.X)
		if x.Sort == "String" {
			lo := "0"
			if e.Lo != nil {
				lo = c.eval(e.Lo).Term
			}
			hi := "(str.len " + x.Term + ")"
			if e.Hi != nil {
				hi = c.eval(e.Hi).Term
			}
			return TV{Term: fmt.Sprintf("(str.substr %s %s (- %s %s))", x.Term, lo, hi, lo), Sort: "String", T: x.T}
		}
		if x.Sort == "Slice" {
			lo := "0"
			if e.Lo != nil {
				lo = c.eval(e.Lo).Term
			}
			hi := "(s.len " + x.Term + ")"
			if e.Hi != nil {
				hi = c.eval(e.Hi).Term
			}
			return TV{Term: fmt.Sprintf("(mkslice (s.arr %s) (+ (s.off %s) %s) (- %s %s) (- (s.cap %s) %s))", x.Term, x.Term, lo, hi, lo, x.Term, lo), Sort: "Slice", T: x.T}
		}
		c.errf("cannot slice %s", e.X)
	case *EAssertT:
		x := c.eval(e.X)
		gt := c.goType(e.T)
		so := s.SortOf(gt)
		return TV{Term: "(" + s.UnboxFn(so) + " " + x.Term + ")", Sort: so, T: gt}
	case *ECall:
		return c.evalCall(e)
	case *EQuant:
		vars := map[string]TV{}
		var decl []string
		var guards []string
		for _, b := range e.Vars {
			gt, so, g := c.resolveType(b.T)
			c.enc.nquant++
			name := fmt.Sprintf("q$%s!%d", b.Name, c.enc.nquant)
			vars[b.Name] = TV{Term: name, Sort: so, T: gt, G: g}
			decl = append(decl, "("+name+" "+qs(so)+")")
			_ = guards
		}
		body := c.with(vars).boolTerm(e.Body)
		kw := "exists"
		if e.Forall {
			kw = "forall"
		}
		return TV{Term: fmt.Sprintf("(%s (%s) %s)", kw, strings.Join(decl, " "), body), Sort: "Bool", T: types.Typ[types.Bool]}
	}
	c.errf("unsupported expression %s", e)
	return TV{}
}

func smtString(s string) string {
	var b strings.Builder
	b.WriteByte('"')
	for _, r := range s {
		switch {
		case r == '"':
			b.WriteString("\"\"")
		case r == '\\':
			b.WriteString("\\u{5c}")
		case r < 0x20 || r > 0x7e:
			b.WriteString(fmt.Sprintf("\\u{%x}", r))
		default:
			b.WriteRune(r)
		}
	}
	b.WriteByte('"')
	return b.String()
}

func (c *EvalCtx) evalIdent(name string) TV {
	if v, ok := c.vars[name]; ok {
		return v
	}
	if c.resolve != nil {
		if v, ok := c.resolve(name, c.st); ok {
			return v
		}
	}
	if gv, ok := c.enc.ctx.contracts.GVars[name]; ok {
		return c.ghostVar(gv)
	}
	if obj := c.lookupQualified(name); obj != nil {
		return c.evalObject(obj)
	}
	c.errf("unknown identifier %s", name)
	return TV{}
}

func (c *EvalCtx) ghostVar(gv *GhostVar) TV {
	// resolve the type in the declaring package
	dc := *c
	dc.pkg = c.enc.ctx.pkgByPath(gv.Pkg)
	dc.pkgPath = gv.Pkg
	gt, so, g := dc.resolveType(gv.T)
	h := Heap{Name: "G$" + gv.Name, Sort: so, Kind: HGhost}
	return TV{Term: c.st.get(h), Sort: so, T: gt, G: g}
}

func (c *EvalCtx) evalObject(obj types.Object) TV {
	s := c.enc.ctx.sorts
	switch o := obj.(type) {
	case *types.Const:
		v := o.Val()
		switch v.Kind() {
		case constant.String:
			return TV{Term: smtString(constant.StringVal(v)), Sort: "String", T: o.Type()}
		case constant.Int:
			return TV{Term: smtInt(v.ExactString()), Sort: "Int", T: o.Type()}
		case constant.Bool:
			return TV{Term: fmt.Sprint(constant.BoolVal(v)), Sort: "Bool", T: o.Type()}
		}
	case *types.Var:
		// package-level variable: a cell at a fixed address
		if o.Parent() == o.Pkg().Scope() {
			if t, ok := c.enc.constGlobal(o.Pkg().Path()+"."+o.Name(), o.Type()); ok {
				return TV{Term: t, Sort: s.SortOf(o.Type()), T: o.Type()}
			}
			ref := c.enc.ctx.globalRef(o)
			return c.loadAt(ref, o.Type())
		}
	case *types.Nil:
		return TV{Term: "0", Sort: "Int", Nil: true}
	case *types.Func:
		// a function used as a value: the same constant the encoder uses for *ssa.Function operands
		return TV{Term: c.enc.ctx.funcRef(o.FullName()), Sort: "Int", T: o.Type()}
	}
	_ = s
	c.errf("cannot evaluate object %s", obj)
	return TV{}
}

func smtInt(s string) string {
	if strings.HasPrefix(s, "-") {
		return "(- " + s[1:] + ")"
	}
	return s
}

// loadAt reads a value of type t stored at address ref (cell or struct).
func (c *EvalCtx) loadAt(ref string, t types.Type) TV {
	s := c.enc.ctx.sorts
	if st, ok := t.Underlying().(*types.Struct); ok {
		name := s.SortOf(t)
		if st.NumFields() == 0 {
			return TV{Term: q("mk$" + name), Sort: name, T: t}
		}
		var parts []string
		for i := 0; i < st.NumFields(); i++ {
			h := s.FieldHeap(t, st.Field(i))
			parts = append(parts, "(select "+c.st.get(h)+" "+ref+")")
		}
		return TV{Term: "(" + q("mk$"+name) + " " + strings.Join(parts, " ") + ")", Sort: name, T: t}
	}
	h := s.CellHeap(t)
	return TV{Term: "(select " + c.st.get(h) + " " + ref + ")", Sort: s.SortOf(t), T: t}
}

func (c *EvalCtx) selectField(x TV, name string) TV {
	s := c.enc.ctx.sorts
	if x.T == nil {
		c.errf("field %s of ghost value", name)
	}
	obj, index, _ := types.LookupFieldOrMethod(x.T, true, c.pkg, name)
	if obj == nil && c.pkg != nil {
		// unexported field of another package: look it up in the declaring package
		if n := namedOf(x.T); n != nil && n.Obj().Pkg() != nil {
			obj, index, _ = types.LookupFieldOrMethod(x.T, true, n.Obj().Pkg(), name)
		}
	}
	fld, ok := obj.(*types.Var)
	if !ok || !fld.IsField() {
		c.errf("no field %s in %s", name, x.T)
	}
	cur := x
	for _, idx := range index {
		cur = c.fieldStep(cur, idx)
	}
	_ = s
	return cur
}

func namedOf(t types.Type) *types.Named {
	for {
		switch u := t.(type) {
		case *types.Pointer:
			t = u.Elem()
		case *types.Named:
			return u
		case *types.Alias:
			t = types.Unalias(u)
		default:
			return nil
		}
	}
}

func (c *EvalCtx) fieldStep(x TV, idx int) TV {
	s := c.enc.ctx.sorts
	switch u := x.T.Underlying().(type) {
	case *types.Pointer:
		st, ok := u.Elem().Underlying().(*types.Struct)
		if !ok {
			c.errf("field of non-struct pointer %s", x.T)
		}
		f := st.Field(idx)
		h := s.FieldHeap(u.Elem(), f)
		return TV{Term: "(select " + c.st.get(h) + " " + x.Term + ")", Sort: s.SortOf(f.Type()), T: f.Type()}
	case *types.Struct:
		f := u.Field(idx)
		sn := s.SortOf(x.T)
		return TV{Term: "(" + s.structSel(sn, f.Name(), idx) + " " + x.Term + ")", Sort: s.SortOf(f.Type()), T: f.Type()}
	}
	c.errf("field of %s", x.T)
	return TV{}
}

func (c *EvalCtx) evalBinary(e *EBinary) TV {
	boolT := types.Typ[types.Bool]
	switch e.Op {
	case "&&", "||", "==>", "<==>":
		x := c.boolTerm(e.X)
		y := c.boolTerm(e.Y)
		op := map[string]string{"&&": "and", "||": "or", "==>": "=>", "<==>": "="}[e.Op]
		return TV{Term: "(" + op + " " + x + " " + y + ")", Sort: "Bool", T: boolT}
	}
	x := c.eval(e.X)
	y := c.eval(e.Y)
	switch e.Op {
	case "==", "!=":
		var t string
		switch {
		case x.Nil && y.Sort == "Slice":
			t = "(= (s.arr " + y.Term + ") 0)"
		case y.Nil && x.Sort == "Slice":
			t = "(= (s.arr " + x.Term + ") 0)"
		default:
			if x.Sort != y.Sort {
				c.errf("comparison of %s (%s) with %s (%s)", e.X, x.Sort, e.Y, y.Sort)
			}
			t = "(= " + x.Term + " " + y.Term + ")"
		}
		if e.Op == "!=" {
			t = "(not " + t + ")"
		}
		return TV{Term: t, Sort: "Bool", T: boolT}
	case "<", "<=", ">", ">=":
		if x.Sort == "String" && y.Sort == "String" {
			switch e.Op {
			case "<":
				return TV{Term: "(str.< " + x.Term + " " + y.Term + ")", Sort: "Bool", T: boolT}
			case "<=":
				return TV{Term: "(str.<= " + x.Term + " " + y.Term + ")", Sort: "Bool", T: boolT}
			case ">":
				return TV{Term: "(str.< " + y.Term + " " + x.Term + ")", Sort: "Bool", T: boolT}
			case ">=":
				return TV{Term: "(str.<= " + y.Term + " " + x.Term + ")", Sort: "Bool", T: boolT}
			}
		}
		if x.Sort != "Int" || y.Sort != "Int" {
			c.errf("ordering on non-integers: %s", e)
		}
		return TV{Term: "(" + e.Op + " " + x.Term + " " + y.Term + ")", Sort: "Bool", T: boolT}
	case "+":
		if x.Sort == "String" && y.Sort == "String" {
			return TV{Term: "(str.++ " + x.Term + " " + y.Term + ")", Sort: "String", T: x.T}
		}
		fallthrough
	case "-", "*":
		if x.Sort != "Int" || y.Sort != "Int" {
			c.errf("arithmetic on non-integers: %s", e)
		}
		return TV{Term: "(" + e.Op + " " + x.Term + " " + y.Term + ")", Sort: "Int", T: x.T}
	case "/":
		return TV{Term: "(godiv " + x.Term + " " + y.Term + ")", Sort: "Int", T: x.T}
	case "%":
		return TV{Term: "(gomod " + x.Term + " " + y.Term + ")", Sort: "Int", T: x.T}
	}
	c.errf("unsupported operator %s", e.Op)
	return TV{}
}

func (c *EvalCtx) evalCall(e *ECall) TV {
	s := c.enc.ctx.sorts
	boolT := types.Typ[types.Bool]
	intT := types.Typ[types.Int]
	strT := types.Typ[types.String]
	fname := ""
	switch f := e.Fun.(type) {
	case *EIdent:
		fname = f.Name
	case *ESel:
		if id, ok := f.X.(*EIdent); ok {
			fname = id.Name + "." + f.Name
		}
	}
	argn := func(n int) {
		if len(e.Args) != n {
			c.errf("%s takes %d arguments", fname, n)
		}
	}
	switch fname {
	case "len":
		argn(1)
		x := c.eval(e.Args[0])
		switch {
		case x.Sort == "String":
			return TV{Term: "(str.len " + x.Term + ")", Sort: "Int", T: intT}
		case x.Sort == "Slice":
			return TV{Term: "(s.len " + x.Term + ")", Sort: "Int", T: intT}
		case x.T != nil:
			if m, ok := x.T.Underlying().(*types.Map); ok {
				_, _, hl := s.MapHeaps(m)
				return TV{Term: "(select " + c.st.get(hl) + " " + x.Term + ")", Sort: "Int", T: intT}
			}
		}
		c.errf("len of %s", e.Args[0])
	case "cap":
		argn(1)
		x := c.eval(e.Args[0])
		if x.Sort == "Slice" {
			return TV{Term: "(s.cap " + x.Term + ")", Sort: "Int", T: intT}
		}
		c.errf("cap of %s", e.Args[0])
	case "has":
		argn(2)
		m := c.eval(e.Args[0])
		k := c.eval(e.Args[1])
		if m.T != nil {
			if mt, ok := m.T.Underlying().(*types.Map); ok {
				hp, _, _ := s.MapHeaps(mt)
				return TV{Term: "(and (not (= " + m.Term + " 0)) (select (select " + c.st.get(hp) + " " + m.Term + ") " + k.Term + "))", Sort: "Bool", T: boolT}
			}
		}
		if m.G != nil {
			return TV{Term: "(select " + m.Term + " " + k.Term + ")", Sort: "Bool", T: boolT}
		}
		c.errf("has on non-map %s", e.Args[0])
	case "ite":
		argn(3)
		cnd := c.boolTerm(e.Args[0])
		a := c.eval(e.Args[1])
		b := c.eval(e.Args[2])
		if a.Nil && b.Sort == "Slice" {
			a = TV{Term: "nilslice", Sort: "Slice", T: b.T}
		}
		if b.Nil && a.Sort == "Slice" {
			b = TV{Term: "nilslice", Sort: "Slice", T: a.T}
		}
		if a.Sort != b.Sort {
			c.errf("ite branches differ in sort")
		}
		return TV{Term: "(ite " + cnd + " " + a.Term + " " + b.Term + ")", Sort: a.Sort, T: a.T, G: a.G}
	case "store":
		argn(3)
		m := c.eval(e.Args[0])
		k := c.eval(e.Args[1])
		v := c.eval(e.Args[2])
		return TV{Term: "(store " + m.Term + " " + k.Term + " " + v.Term + ")", Sort: m.Sort, T: m.T, G: m.G}
	case "fresh":
		// fresh(x): x was allocated during the call / function (x > old $alloc)
		argn(1)
		x := c.eval(e.Args[0])
		if c.old == nil {
			c.errf("fresh() needs an old state")
		}
		t := x.Term
		if x.Sort == "Slice" {
			t = "(s.arr " + x.Term + ")"
		}
		return TV{Term: "(> " + t + " " + c.old.get(allocHeap) + ")", Sort: "Bool", T: boolT}
	case "permuted":
		// permuted(s): the elements of slice s are a permutation of its elements in the old
		// state (skolemised both ways) and no other backing array of that element type changed.
		// Only usable in contracts that are assumed at call sites (trusted / extern).
		argn(1)
		x := c.eval(e.Args[0])
		if c.old == nil || x.Sort != "Slice" || x.T == nil {
			c.errf("permuted() needs a slice and an old state")
		}
		sl := x.T.Underlying().(*types.Slice)
		h := s.ElemHeap(sl.Elem())
		c.enc.nquant++
		id := fmt.Sprint(c.enc.nquant)
		perm, inv := q("perm$"+id), q("pinv$"+id)
		// a name for the slice: its term may contain `ite`, which is not allowed in patterns
		xn := q("parg$" + id)
		c.enc.emit(fmt.Sprintf("(declare-const %s Slice)", xn))
		c.enc.emit(fmt.Sprintf("(assert (= %s %s))", xn, x.Term))
		x.Term = xn
		c.enc.emit(fmt.Sprintf("(declare-fun %s (Int) Int)", perm))
		c.enc.emit(fmt.Sprintf("(declare-fun %s (Int) Int)", inv))
		nw, od := c.st.get(h), c.old.get(h)
		newArr := "(select " + nw + " (s.arr " + x.Term + "))"
		oldArr := "(select " + od + " (s.arr " + x.Term + "))"
		qi := "qp!" + id
		t1 := fmt.Sprintf("(forall ((%s Int)) (! (=> (and (<= 0 %s) (< %s (s.len %s))) (and (<= 0 (%s %s)) (< (%s %s) (s.len %s)) (= (select %s (at (s.off %s) %s)) (select %s (at (s.off %s) (%s %s)))))) :pattern ((select %s (at (s.off %s) %s)))))",
			qi, qi, qi, x.Term, perm, qi, perm, qi, x.Term, newArr, x.Term, qi, oldArr, x.Term, perm, qi, newArr, x.Term, qi)
		t2 := fmt.Sprintf("(forall ((%s Int)) (! (=> (and (<= 0 %s) (< %s (s.len %s))) (and (<= 0 (%s %s)) (< (%s %s) (s.len %s)) (= (select %s (at (s.off %s) (%s %s))) (select %s (at (s.off %s) %s))))) :pattern ((select %s (at (s.off %s) %s)))))",
			qi, qi, qi, x.Term, inv, qi, inv, qi, x.Term, newArr, x.Term, inv, qi, oldArr, x.Term, qi, oldArr, x.Term, qi)
		t3 := fmt.Sprintf("(forall ((%s Int)) (! (=> (not (= %s (s.arr %s))) (= (select %s %s) (select %s %s))) :pattern ((select %s %s))))", qi, qi, x.Term, nw, qi, od, qi, nw, qi)
		// the permutation of [0,len) is extended to a bijection on Int (identity outside the range),
		// so the inverse laws hold without a range guard and instantiation chains close at once
		t4 := fmt.Sprintf("(forall ((%s Int)) (! (and (= (%s (%s %s)) %s) (= (%s (%s %s)) %s)) :pattern ((%s %s)) :pattern ((%s %s))))",
			qi, inv, perm, qi, qi, perm, inv, qi, qi, perm, qi, inv, qi)
		// cells of the same array outside the slice are unchanged
		t5 := fmt.Sprintf("(forall ((%s Int)) (! (=> (or (< %s (s.off %s)) (>= %s (+ (s.off %s) (s.len %s)))) (= (select %s %s) (select %s %s))) :pattern ((select %s %s))))", qi, qi, x.Term, qi, x.Term, x.Term, newArr, qi, oldArr, qi, newArr, qi)
		return TV{Term: "(and " + t1 + " " + t2 + " " + t3 + " " + t4 + " " + t5 + ")", Sort: "Bool", T: boolT}
	case "bitand", "bitor", "bitxor":
		argn(2)
		x := c.eval(e.Args[0])
		y := c.eval(e.Args[1])
		return TV{Term: "(" + fname + " " + x.Term + " " + y.Term + ")", Sort: "Int", T: intT}
	case "sent", "nsent":
		// sent(c): the last value sent on channel c; nsent(c): how many values were sent on it
		argn(1)
		x := c.eval(e.Args[0])
		var ct *types.Chan
		if x.T != nil {
			ct, _ = x.T.Underlying().(*types.Chan)
		}
		if ct == nil {
			c.errf("%s() needs a channel", fname)
		}
		hv, hn := s.ChanHeaps(ct.Elem())
		if fname == "nsent" {
			return TV{Term: "(select " + c.st.get(hn) + " " + x.Term + ")", Sort: "Int", T: intT}
		}
		return TV{Term: "(select " + c.st.get(hv) + " " + x.Term + ")", Sort: s.SortOf(ct.Elem()), T: ct.Elem()}
	case "allocated":
		argn(1)
		x := c.eval(e.Args[0])
		return TV{Term: "(<= " + x.Term + " " + c.st.get(allocHeap) + ")", Sort: "Bool", T: boolT}
	case "typeis":
		argn(2)
		x := c.eval(e.Args[0])
		ts, isStr := e.Args[1].(*EStr)
		if !isStr {
			c.errf("typeis needs a type")
		}
		te, err := ParseType(ts.Val)
		if err != nil {
			c.errf("typeis: %v", err)
		}
		gt := c.goType(te)
		return TV{Term: fmt.Sprintf("(= (tagOf %s) %d)", x.Term, s.TagOf(gt)), Sort: "Bool", T: boolT}
	case "box":
		// box(x): the interface value holding x with x's static type
		argn(1)
		x := c.eval(e.Args[0])
		if x.T == nil {
			c.errf("box of ghost value")
		}
		return TV{Term: fmt.Sprintf("(%s %s %d)", s.BoxFn(x.Sort), x.Term, s.TagOf(x.T)), Sort: "Int", T: types.NewInterfaceType(nil, nil)}
	case "strings.HasPrefix":
		argn(2)
		return TV{Term: "(str.prefixof " + c.eval(e.Args[1]).Term + " " + c.eval(e.Args[0]).Term + ")", Sort: "Bool", T: boolT}
	case "strings.HasSuffix":
		argn(2)
		return TV{Term: "(str.suffixof " + c.eval(e.Args[1]).Term + " " + c.eval(e.Args[0]).Term + ")", Sort: "Bool", T: boolT}
	case "strings.Contains":
		argn(2)
		return TV{Term: "(str.contains " + c.eval(e.Args[0]).Term + " " + c.eval(e.Args[1]).Term + ")", Sort: "Bool", T: boolT}
	case "strings.Index":
		argn(2)
		return TV{Term: "(str.indexof " + c.eval(e.Args[0]).Term + " " + c.eval(e.Args[1]).Term + " 0)", Sort: "Int", T: intT}
	case "itoa":
		argn(1)
		return TV{Term: "(itoa " + c.eval(e.Args[0]).Term + ")", Sort: "String", T: strT}
	case "substr":
		argn(3)
		return TV{Term: "(str.substr " + c.eval(e.Args[0]).Term + " " + c.eval(e.Args[1]).Term + " " + c.eval(e.Args[2]).Term + ")", Sort: "String", T: strT}
	case "inre":
		// inre(s, "regex-name"): membership in a named regular language from the prelude
		argn(2)
		rn, ok := e.Args[1].(*EStr)
		if !ok {
			c.errf("inre needs a literal regex name")
		}
		return TV{Term: "(str.in_re " + c.eval(e.Args[0]).Term + " " + rn.Val + ")", Sort: "Bool", T: boolT}
	}
	// ghost functions
	if gf, ok := c.enc.ctx.contracts.GFuncs[fname]; ok {
		return c.callGhost(gf, e.Args)
	}
	c.errf("unknown function %s", fname)
	return TV{}
}

func (c *EvalCtx) callGhost(gf *GhostFunc, args []Expr) TV {
	if c.enc.usedGhost != nil {
		c.enc.usedGhost[gf.Name] = true
	}
	if len(args) != len(gf.Params) {
		c.errf("%s takes %d arguments", gf.Name, len(gf.Params))
	}
	// evaluate arguments in the caller's context
	var av []TV
	for _, a := range args {
		av = append(av, c.eval(a))
	}
	// types are resolved in the declaring package
	dc := *c
	dc.pkg = c.enc.ctx.pkgByPath(gf.Pkg)
	dc.pkgPath = gf.Pkg
	dc.resolve = nil
	dc.where = c.where + " in ghost " + gf.Name
	rt, rs, rg := dc.resolveType(gf.Ret)
	if gf.Def == nil {
		var sorts []string
		var terms []string
		for i, p := range gf.Params {
			_, ps, _ := dc.resolveType(p.T)
			if ps != av[i].Sort {
				c.errf("argument %d of %s has sort %s, want %s", i+1, gf.Name, av[i].Sort, ps)
			}
			sorts = append(sorts, qs(ps))
			terms = append(terms, av[i].Term)
		}
		c.enc.ctx.declareUF(gf.Name, sorts, rs)
		if len(terms) == 0 {
			return TV{Term: q("g$" + gf.Name), Sort: rs, T: rt, G: rg}
		}
		return TV{Term: "(" + q("g$"+gf.Name) + " " + strings.Join(terms, " ") + ")", Sort: rs, T: rt, G: rg}
	}
	if c.depth > 20 {
		c.errf("ghost function expansion too deep (recursive definition?) in %s", gf.Name)
	}
	vars := map[string]TV{}
	for i, p := range gf.Params {
		pt, ps, pg := dc.resolveType(p.T)
		if ps != av[i].Sort {
			c.errf("argument %d of %s has sort %s, want %s", i+1, gf.Name, av[i].Sort, ps)
		}
		if av[i].Nil && ps == "Slice" {
			av[i].Term = "nilslice"
		}
		vars[p.Name] = TV{Term: av[i].Term, Sort: ps, T: pt, G: pg}
	}
	n := dc
	n.vars = vars
	n.depth = c.depth + 1
	r := n.eval(gf.Def)
	if r.Sort != rs {
		c.errf("ghost function %s returns %s, declared %s", gf.Name, r.Sort, rs)
	}
	return TV{Term: r.Term, Sort: rs, T: rt, G: rg}
}
