package main

// Per-function verification driver: two encoding passes (collect the relevant
// heaps, then encode), axiom selection, lemma obligations.

import (
	"fmt"
	"sort"
	"strings"

	"golang.org/x/tools/go/ssa"
)

func (c *Ctx) newEnc(fn *ssa.Function, fc *FuncContract, key string) *Enc {
	return &Enc{ctx: c, fn: fn, fc: fc, key: key}
}

// EncodeFunc produces the obligations of one function under contract.
func (c *Ctx) EncodeFunc(key string) (*Enc, error) {
	fc := c.contracts.Funcs[key]
	fn := c.funcByKey[key]
	if fn == nil {
		return nil, fmt.Errorf("contract detached: no function %s in the loaded packages", key)
	}
	if len(fn.Blocks) == 0 {
		return nil, fmt.Errorf("function %s has no body", key)
	}
	c.resetSymbols()
	e := c.newEnc(fn, fc, key)
	e.collect = true
	e.relevant = nil
	e.usedGhost = map[string]bool{}
	if err := e.run(); err != nil {
		return nil, err
	}
	rel := e.touched
	used := e.usedGhost
	e2 := c.newEnc(fn, fc, key)
	e2.relevant = rel
	e2.usedGhost = used
	if err := e2.run(); err != nil {
		return nil, err
	}
	if err := e2.selectAxioms(); err != nil {
		return nil, err
	}
	e2.preludeText = c.prelude(e2)
	return e2, nil
}

func exprGhostFuncs(e Expr, out map[string]bool) {
	switch x := e.(type) {
	case *EUnary:
		exprGhostFuncs(x.X, out)
	case *EBinary:
		exprGhostFuncs(x.X, out)
		exprGhostFuncs(x.Y, out)
	case *ESel:
		exprGhostFuncs(x.X, out)
	case *EIndex:
		exprGhostFuncs(x.X, out)
		exprGhostFuncs(x.I, out)
	case *ESlice:
		exprGhostFuncs(x.X, out)
		if x.Lo != nil {
			exprGhostFuncs(x.Lo, out)
		}
		if x.Hi != nil {
			exprGhostFuncs(x.Hi, out)
		}
	case *ECall:
		if id, ok := x.Fun.(*EIdent); ok {
			out[id.Name] = true
		}
		for _, a := range x.Args {
			exprGhostFuncs(a, out)
		}
	case *EAssertT:
		exprGhostFuncs(x.X, out)
	case *EOld:
		exprGhostFuncs(x.X, out)
	case *EQuant:
		exprGhostFuncs(x.Body, out)
	}
}

// selectAxioms adds the axioms that mention a ghost function used by this function's VCs.
func (e *Enc) selectAxioms() error {
	cs := e.ctx.contracts
	used := map[string]bool{}
	for k := range e.usedGhost {
		used[k] = true
	}
	included := map[int]bool{}
	for changed := true; changed; {
		changed = false
		for i, ax := range cs.Axioms {
			if included[i] {
				continue
			}
			m := map[string]bool{}
			exprGhostFuncs(ax.E, m)
			hit := false
			for f := range m {
				if used[f] {
					hit = true
				}
			}
			if !hit {
				continue
			}
			included[i] = true
			changed = true
			for f := range m {
				if _, isG := cs.GFuncs[f]; isG && !used[f] {
					used[f] = true
				}
			}
		}
	}
	var idx []int
	for i := range included {
		idx = append(idx, i)
	}
	sort.Ints(idx)
	var err error
	func() {
		defer func() {
			if r := recover(); r != nil {
				if pe, ok := r.(error); ok && strings.HasPrefix(pe.Error(), "contract error") {
					err = pe
					return
				}
				panic(r)
			}
		}()
		for _, i := range idx {
			ax := cs.Axioms[i]
			pkgPath := ""
			for t := range ax.Tags {
				if strings.HasPrefix(t, "pkg:") {
					pkgPath = strings.TrimPrefix(t, "pkg:")
				}
			}
			c := &EvalCtx{enc: e, pkg: e.ctx.pkgByPath(pkgPath), pkgPath: pkgPath, st: e.entry, vars: map[string]TV{}, where: "axiom " + ax.Label}
			e.axioms = append(e.axioms, c.boolTerm(ax.E))
			e.axiomNames = append(e.axiomNames, ax.Label)
		}
	}()
	return err
}

// EncodeLemmas creates one obligation per lemma clause.
func (c *Ctx) EncodeLemmas() (*Enc, error) {
	c.resetSymbols()
	e := c.newEnc(nil, nil, "lemma")
	e.declSeen = map[string]bool{}
	e.touched = map[string]Heap{}
	e.usedGhost = map[string]bool{}
	e.en = map[*ssa.BasicBlock]string{}
	e.counts = map[string]int{}
	e.entry = &State{m: map[string]string{}, b: map[string]string{}, enc: e}
	var err error
	func() {
		defer func() {
			if r := recover(); r != nil {
				if pe, ok := r.(error); ok && strings.HasPrefix(pe.Error(), "contract error") {
					err = pe
					return
				}
				panic(r)
			}
		}()
		for _, lm := range c.contracts.Lemmas {
			pkgPath := ""
			for t := range lm.Tags {
				if strings.HasPrefix(t, "pkg:") {
					pkgPath = strings.TrimPrefix(t, "pkg:")
				}
			}
			ec := &EvalCtx{enc: e, pkg: c.pkgByPath(pkgPath), pkgPath: pkgPath, st: e.entry, vars: map[string]TV{}, where: "lemma " + lm.Label}
			goal := ec.boolTerm(lm.E)
			o := e.oblig("lemma", lm.Label, goal, lm.Src, lm)
			o.Name = "lemma/" + lm.Label
		}
	}()
	if err != nil {
		return nil, err
	}
	if err := e.selectAxioms(); err != nil {
		return nil, err
	}
	e.preludeText = c.prelude(e)
	return e, nil
}
