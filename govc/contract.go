package main

// Contract language: lexer, expression parser and contract-file parser.
// Contracts are //@ comment lines in zz_contracts_verif.go files of /repo
// (build tag verif) and in /verif/lib/*.spec (assumed contracts of
// dependencies and ghost vocabulary shared across packages).

import (
	"fmt"
	"strconv"
	"strings"
	"unicode"
)

// ---------------------------------------------------------------- tokens

type tokKind int

const (
	tEOF tokKind = iota
	tIdent
	tInt
	tString
	tOp
)

type ctok struct {
	kind tokKind
	text string
	pos  int
}

func lex(src string) ([]ctok, error) {
	var toks []ctok
	i := 0
	for i < len(src) {
		c := src[i]
		switch {
		case c == ' ' || c == '\t' || c == '\n' || c == '\r':
			i++
		case c == '#' || c == '$' || c == '_' || unicode.IsLetter(rune(c)):
			j := i + 1
			for j < len(src) && (src[j] == '_' || src[j] == '$' || unicode.IsLetter(rune(src[j])) || unicode.IsDigit(rune(src[j]))) {
				j++
			}
			toks = append(toks, ctok{tIdent, src[i:j], i})
			i = j
		case unicode.IsDigit(rune(c)):
			j := i + 1
			for j < len(src) && unicode.IsDigit(rune(src[j])) {
				j++
			}
			toks = append(toks, ctok{tInt, src[i:j], i})
			i = j
		case c == '"':
			j := i + 1
			for j < len(src) && src[j] != '"' {
				if src[j] == '\\' {
					j++
				}
				j++
			}
			if j >= len(src) {
				return nil, fmt.Errorf("unterminated string at %d", i)
			}
			s, err := strconv.Unquote(src[i : j+1])
			if err != nil {
				return nil, fmt.Errorf("bad string literal %s", src[i:j+1])
			}
			toks = append(toks, ctok{tString, s, i})
			i = j + 1
		case c == '`':
			j := i + 1
			for j < len(src) && src[j] != '`' {
				j++
			}
			if j >= len(src) {
				return nil, fmt.Errorf("unterminated raw string at %d", i)
			}
			toks = append(toks, ctok{tString, src[i+1 : j], i})
			i = j + 1
		default:
			ops := []string{"<==>", "==>", "::", "==", "!=", "<=", ">=", "&&", "||", ".(", "<", ">", "&", "+", "-", "*", "/", "%", "!", "(", ")", "[", "]", ",", ".", ":", "{", "}", "=", "?"}
			matched := false
			for _, op := range ops {
				if strings.HasPrefix(src[i:], op) {
					toks = append(toks, ctok{tOp, op, i})
					i += len(op)
					matched = true
					break
				}
			}
			if !matched {
				return nil, fmt.Errorf("unexpected character %q at %d", c, i)
			}
		}
	}
	toks = append(toks, ctok{tEOF, "", len(src)})
	return toks, nil
}

// ---------------------------------------------------------------- AST

type Expr interface{ String() string }

type (
	EIdent struct{ Name string }
	EInt   struct{ Val string }
	EStr   struct{ Val string }
	EBool  struct{ Val bool }
	ENil   struct{}
	EUnary struct {
		Op string
		X  Expr
	}
	EBinary struct {
		Op   string
		X, Y Expr
	}
	ESel struct {
		X    Expr
		Name string
	}
	EIndex struct{ X, I Expr }
	ESlice struct{ X, Lo, Hi Expr }
	ECall  struct {
		Fun  Expr
		Args []Expr
	}
	EAssertT struct {
		X Expr
		T *TypeExpr
	}
	EOld   struct{ X Expr }
	EQuant struct {
		Forall bool
		Vars   []Binder
		Body   Expr
	}
)

type Binder struct {
	Name string
	T    *TypeExpr
}

// TypeExpr is a type written in a contract.
type TypeExpr struct {
	Kind string // "name", "ptr", "slice", "map", "set", "iface"
	Name string // for "name": possibly pkg-qualified
	Elem *TypeExpr
	Key  *TypeExpr
}

func (t *TypeExpr) String() string {
	switch t.Kind {
	case "name":
		return t.Name
	case "ptr":
		return "*" + t.Elem.String()
	case "slice":
		return "[]" + t.Elem.String()
	case "map":
		return "map[" + t.Key.String() + "]" + t.Elem.String()
	case "gomap":
		return "gomap[" + t.Key.String() + "]" + t.Elem.String()
	case "set":
		return "set[" + t.Key.String() + "]"
	case "iface":
		return "interface{}"
	}
	return "?"
}

func (e *EIdent) String() string  { return e.Name }
func (e *EInt) String() string    { return e.Val }
func (e *EStr) String() string    { return strconv.Quote(e.Val) }
func (e *EBool) String() string   { return fmt.Sprint(e.Val) }
func (e *ENil) String() string    { return "nil" }
func (e *EUnary) String() string  { return e.Op + e.X.String() }
func (e *EBinary) String() string { return "(" + e.X.String() + " " + e.Op + " " + e.Y.String() + ")" }
func (e *ESel) String() string    { return e.X.String() + "." + e.Name }
func (e *EIndex) String() string  { return e.X.String() + "[" + e.I.String() + "]" }
func (e *ESlice) String() string {
	lo, hi := "", ""
	if e.Lo != nil {
		lo = e.Lo.String()
	}
	if e.Hi != nil {
		hi = e.Hi.String()
	}
	return e.X.String() + "[" + lo + ":" + hi + "]"
}
func (e *ECall) String() string {
	var a []string
	for _, x := range e.Args {
		a = append(a, x.String())
	}
	return e.Fun.String() + "(" + strings.Join(a, ", ") + ")"
}
func (e *EAssertT) String() string { return e.X.String() + ".(" + e.T.String() + ")" }
func (e *EOld) String() string     { return "old(" + e.X.String() + ")" }
func (e *EQuant) String() string {
	q := "exists"
	if e.Forall {
		q = "forall"
	}
	var v []string
	for _, b := range e.Vars {
		v = append(v, b.Name+" "+b.T.String())
	}
	return "(" + q + " " + strings.Join(v, ", ") + " :: " + e.Body.String() + ")"
}

// ---------------------------------------------------------------- parser

type parser struct {
	toks []ctok
	p    int
	src  string
}

func (p *parser) peek() ctok { return p.toks[p.p] }
func (p *parser) next() ctok { t := p.toks[p.p]; p.p++; return t }
func (p *parser) isOp(s string) bool {
	t := p.peek()
	return t.kind == tOp && t.text == s
}
func (p *parser) isIdent(s string) bool {
	t := p.peek()
	return t.kind == tIdent && t.text == s
}
func (p *parser) expectOp(s string) {
	t := p.next()
	if t.kind != tOp || t.text != s {
		panic(fmt.Errorf("expected %q, found %q at %d in %q", s, t.text, t.pos, p.src))
	}
}

func ParseExpr(src string) (e Expr, err error) {
	toks, err := lex(src)
	if err != nil {
		return nil, err
	}
	p := &parser{toks: toks, src: src}
	defer func() {
		if r := recover(); r != nil {
			if pe, ok := r.(error); ok {
				err = pe
				return
			}
			panic(r)
		}
	}()
	e = p.parseExpr()
	if p.peek().kind != tEOF {
		return nil, fmt.Errorf("trailing input %q at %d in %q", p.peek().text, p.peek().pos, src)
	}
	return e, nil
}

func (p *parser) parseExpr() Expr {
	if p.isIdent("forall") || p.isIdent("exists") {
		forall := p.next().text == "forall"
		var binders []Binder
		for {
			// names, then a type
			var names []string
			for {
				t := p.next()
				if t.kind != tIdent {
					panic(fmt.Errorf("binder name expected at %d in %q", t.pos, p.src))
				}
				names = append(names, t.text)
				if p.isOp(",") {
					p.next()
					continue
				}
				break
			}
			ty := p.parseType()
			for _, n := range names {
				binders = append(binders, Binder{n, ty})
			}
			if p.isOp(",") {
				p.next()
				continue
			}
			break
		}
		p.expectOp("::")
		body := p.parseExpr()
		return &EQuant{forall, binders, body}
	}
	return p.parseImpl()
}

func (p *parser) parseImpl() Expr {
	l := p.parseOr()
	if p.isOp("==>") {
		p.next()
		r := p.parseExprNoQuantTail()
		return &EBinary{"==>", l, r}
	}
	if p.isOp("<==>") {
		p.next()
		r := p.parseOr()
		return &EBinary{"<==>", l, r}
	}
	return l
}

// the right-hand side of ==> may itself be a quantifier or another implication
func (p *parser) parseExprNoQuantTail() Expr {
	if p.isIdent("forall") || p.isIdent("exists") {
		return p.parseExpr()
	}
	return p.parseImpl()
}

func (p *parser) parseOr() Expr {
	l := p.parseAnd()
	for p.isOp("||") {
		p.next()
		r := p.parseAnd()
		l = &EBinary{"||", l, r}
	}
	return l
}

func (p *parser) parseAnd() Expr {
	l := p.parseCmp()
	for p.isOp("&&") {
		p.next()
		r := p.parseCmp()
		l = &EBinary{"&&", l, r}
	}
	return l
}

func (p *parser) parseCmp() Expr {
	l := p.parseAdd()
	for _, op := range []string{"==", "!=", "<=", ">=", "<", ">"} {
		if p.isOp(op) {
			p.next()
			r := p.parseAdd()
			return &EBinary{op, l, r}
		}
	}
	return l
}

func (p *parser) parseAdd() Expr {
	l := p.parseMul()
	for p.isOp("+") || p.isOp("-") {
		op := p.next().text
		r := p.parseMul()
		l = &EBinary{op, l, r}
	}
	return l
}

func (p *parser) parseMul() Expr {
	l := p.parseUnary()
	for p.isOp("*") || p.isOp("/") || p.isOp("%") {
		op := p.next().text
		r := p.parseUnary()
		l = &EBinary{op, l, r}
	}
	return l
}

func (p *parser) parseUnary() Expr {
	if p.isOp("!") {
		p.next()
		return &EUnary{"!", p.parseUnary()}
	}
	if p.isOp("-") {
		p.next()
		return &EUnary{"-", p.parseUnary()}
	}
	if p.isOp("*") {
		p.next()
		return &EUnary{"*", p.parseUnary()}
	}
	if p.isOp("&") {
		p.next()
		return &EUnary{"&", p.parseUnary()}
	}
	return p.parsePostfix()
}

func (p *parser) parsePostfix() Expr {
	x := p.parsePrimary()
	for {
		switch {
		case p.isOp(".("):
			p.next()
			t := p.parseType()
			p.expectOp(")")
			x = &EAssertT{x, t}
		case p.isOp("."):
			p.next()
			t := p.next()
			if t.kind != tIdent {
				panic(fmt.Errorf("field name expected at %d in %q", t.pos, p.src))
			}
			x = &ESel{x, t.text}
		case p.isOp("["):
			p.next()
			var lo, hi Expr
			if p.isOp(":") {
				p.next()
				if !p.isOp("]") {
					hi = p.parseExpr()
				}
				p.expectOp("]")
				x = &ESlice{x, nil, hi}
				continue
			}
			lo = p.parseExpr()
			if p.isOp(":") {
				p.next()
				if !p.isOp("]") {
					hi = p.parseExpr()
				}
				p.expectOp("]")
				x = &ESlice{x, lo, hi}
				continue
			}
			p.expectOp("]")
			x = &EIndex{x, lo}
		case p.isOp("("):
			p.next()
			var args []Expr
			if id, ok := x.(*EIdent); ok && id.Name == "typeis" {
				a := p.parseExpr()
				p.expectOp(",")
				t := p.parseType()
				p.expectOp(")")
				x = &ECall{x, []Expr{a, &EStr{Val: t.String()}}}
				continue
			}
			for !p.isOp(")") {
				args = append(args, p.parseExpr())
				if p.isOp(",") {
					p.next()
				}
			}
			p.expectOp(")")
			if id, ok := x.(*EIdent); ok && id.Name == "old" {
				if len(args) != 1 {
					panic(fmt.Errorf("old takes one argument in %q", p.src))
				}
				x = &EOld{args[0]}
			} else {
				x = &ECall{x, args}
			}
		default:
			return x
		}
	}
}

func (p *parser) parsePrimary() Expr {
	t := p.next()
	switch t.kind {
	case tIdent:
		switch t.text {
		case "true":
			return &EBool{true}
		case "false":
			return &EBool{false}
		case "nil":
			return &ENil{}
		}
		return &EIdent{t.text}
	case tInt:
		return &EInt{t.text}
	case tString:
		return &EStr{t.text}
	case tOp:
		if t.text == "(" {
			e := p.parseExpr()
			p.expectOp(")")
			return e
		}
	}
	panic(fmt.Errorf("unexpected %q at %d in %q", t.text, t.pos, p.src))
}

func (p *parser) parseType() *TypeExpr {
	if p.isOp("*") {
		p.next()
		return &TypeExpr{Kind: "ptr", Elem: p.parseType()}
	}
	if p.isOp("[") {
		p.next()
		p.expectOp("]")
		return &TypeExpr{Kind: "slice", Elem: p.parseType()}
	}
	t := p.next()
	if t.kind != tIdent {
		panic(fmt.Errorf("type expected at %d in %q", t.pos, p.src))
	}
	switch t.text {
	case "map":
		p.expectOp("[")
		k := p.parseType()
		p.expectOp("]")
		v := p.parseType()
		return &TypeExpr{Kind: "map", Key: k, Elem: v}
	case "gomap":
		p.expectOp("[")
		k := p.parseType()
		p.expectOp("]")
		v := p.parseType()
		return &TypeExpr{Kind: "gomap", Key: k, Elem: v}
	case "set":
		p.expectOp("[")
		k := p.parseType()
		p.expectOp("]")
		return &TypeExpr{Kind: "set", Key: k}
	case "interface":
		p.expectOp("{")
		p.expectOp("}")
		return &TypeExpr{Kind: "iface"}
	case "any":
		return &TypeExpr{Kind: "iface"}
	}
	name := t.text
	if p.isOp(".") {
		p.next()
		n := p.next()
		name += "." + n.text
	}
	return &TypeExpr{Kind: "name", Name: name}
}

func ParseType(src string) (t *TypeExpr, err error) {
	toks, err := lex(src)
	if err != nil {
		return nil, err
	}
	p := &parser{toks: toks, src: src}
	defer func() {
		if r := recover(); r != nil {
			if pe, ok := r.(error); ok {
				err = pe
				return
			}
			panic(r)
		}
	}()
	t = p.parseType()
	if p.peek().kind != tEOF {
		return nil, fmt.Errorf("trailing input in type %q", src)
	}
	return t, nil
}

// ---------------------------------------------------------------- contract files

type Clause struct {
	Kind   string // requires | ensures | invariant | lemma | axiom
	Label  string
	Loop   int // for invariant
	Src    string
	E      Expr
	File   string
	Line   int
	Tags   map[string]bool // property ids this clause counts for; empty = the function's props
	Before string          // ensures only: applies at return statements above the first line of the function that contains this text
	At     string          // ensures only: applies at return statements whose source line contains this text
}

type GhostVar struct {
	Name    string
	T       *TypeExpr
	Pkg     string
	Default Expr // for map[ref]T ghost fields: value at freshly allocated objects
}

type GhostFunc struct {
	Name   string
	Params []Binder
	Ret    *TypeExpr
	Def    Expr   // nil => uninterpreted
	Pkg    string // package path for name resolution
	File   string
	Line   int
}

type FuncContract struct {
	Key      string // "pkgpath.Func" | "pkgpath.(*T).M" | "pkgpath.T.M" | "pkgpath.Iface.M"
	Pkg      string // package path used for name resolution
	Props    []string
	Requires []*Clause
	Ensures  []*Clause
	Invs     []*Clause
	Marks    []*Clause
	Records  []string  // ghost variables that log the calls of this function (`records G = e`)
	Asserts  []*Clause // assert [label] at "source text" expr: checked after the statement on that line
	Modifies []string  // declared frame (heap names / ghost vars); nil = computed
	HasMod   bool
	Trusted  bool // body not verified (listed)
	Assumed  bool // external / interface method: never has a verified body
	Pure     bool // no heap/ghost effect at all
	NoSafety bool // do not generate safety obligations (thin contract used only by callers)
	Inline   bool
	Opts     map[string]string
	File     string
	Line     int
}

type ContractSet struct {
	Funcs   map[string]*FuncContract
	GVars   map[string]*GhostVar
	GFuncs  map[string]*GhostFunc
	Axioms  []*Clause
	Lemmas  []*Clause
	Order   []string
	Imports map[string]map[string]string // pkgpath -> (alias -> import path) for spec files
}

func NewContractSet() *ContractSet {
	return &ContractSet{Funcs: map[string]*FuncContract{}, GVars: map[string]*GhostVar{}, GFuncs: map[string]*GhostFunc{}, Imports: map[string]map[string]string{}}
}

var clauseKeywords = map[string]bool{
	"func": true, "interface": true, "extern": true, "ghost": true, "axiom": true, "lemma": true,
	"props": true, "requires": true, "ensures": true, "loop": true, "modifies": true, "trusted": true,
	"marks": true, "records": true, "assert": true, "assumed": true, "pure": true, "nosafety": true, "opt": true, "package": true, "import": true, "inline": true,
}

// ParseContractText parses the //@ lines of one file. pkgPath is the package the
// file belongs to (spec files set it with a `package` directive).
func (cs *ContractSet) ParseContractText(file string, pkgPath string, lines []string, lineNos []int) error {
	// join continuation lines
	type stmt struct {
		text string
		line int
	}
	var stmts []stmt
	for i, l := range lines {
		t := strings.TrimSpace(l)
		if t == "" {
			continue
		}
		if strings.HasPrefix(t, "//") { // comment inside contract text
			continue
		}
		first := t
		if j := strings.IndexAny(t, " \t("); j >= 0 {
			first = t[:j]
		}
		if clauseKeywords[first] || len(stmts) == 0 {
			stmts = append(stmts, stmt{t, lineNos[i]})
		} else {
			stmts[len(stmts)-1].text += " " + t
		}
	}
	var cur *FuncContract
	for _, s := range stmts {
		kw, rest := splitFirst(s.text)
		errf := func(format string, a ...interface{}) error {
			return fmt.Errorf("%s:%d: %s", file, s.line, fmt.Sprintf(format, a...))
		}
		mkClause := func(kind, rest string) (*Clause, error) {
			c := &Clause{Kind: kind, File: file, Line: s.line, Tags: map[string]bool{}}
			rest = strings.TrimSpace(rest)
			for strings.HasPrefix(rest, "[") {
				j := strings.Index(rest, "]")
				if j < 0 {
					return nil, errf("unterminated label")
				}
				lab := rest[1:j]
				if strings.HasPrefix(lab, "C") && len(lab) == 3 && unicode.IsDigit(rune(lab[1])) {
					c.Tags[lab] = true
				} else if strings.HasPrefix(lab, "caller=") {
					// a protocol precondition that only binds call sites inside the named function(s)
					c.Tags["pkg:caller:"+strings.TrimPrefix(lab, "caller=")] = true
				} else {
					c.Label = lab
				}
				rest = strings.TrimSpace(rest[j+1:])
			}
			if strings.HasPrefix(rest, "at \"") {
				j := strings.Index(rest[4:], "\"")
				if j < 0 {
					return nil, errf("unterminated at \"...\"")
				}
				c.At = rest[4 : 4+j]
				rest = strings.TrimSpace(rest[4+j+1:])
			}
			if strings.HasPrefix(rest, "before \"") {
				j := strings.Index(rest[8:], "\"")
				if j < 0 {
					return nil, errf("unterminated before \"...\"")
				}
				c.Before = rest[8 : 8+j]
				rest = strings.TrimSpace(rest[8+j+1:])
			}
			c.Src = rest
			e, err := ParseExpr(rest)
			if err != nil {
				return nil, errf("%v", err)
			}
			c.E = e
			return c, nil
		}
		switch kw {
		case "package":
			pkgPath = strings.TrimSpace(rest)
			cur = nil
		case "import":
			// import alias "path"
			f := strings.Fields(rest)
			if len(f) != 2 {
				return errf("import alias \"path\"")
			}
			if cs.Imports[pkgPath] == nil {
				cs.Imports[pkgPath] = map[string]string{}
			}
			cs.Imports[pkgPath][f[0]] = strings.Trim(f[1], "\"")
		case "func", "interface", "extern":
			name := strings.TrimSpace(rest)
			key := name
			if kw != "extern" || !strings.Contains(name, "/") && !strings.Contains(name, ".") {
				key = pkgPath + "." + name
			}
			if kw == "extern" {
				key = name
			}
			if cs.Funcs[key] != nil {
				return errf("duplicate contract for %s", key)
			}
			cur = &FuncContract{Key: key, Pkg: pkgPath, File: file, Line: s.line, Opts: map[string]string{}}
			if kw != "func" {
				cur.Assumed = true
			}
			cs.Funcs[key] = cur
			cs.Order = append(cs.Order, key)
		case "ghost":
			kw2, rest2 := splitFirst(rest)
			switch kw2 {
			case "var":
				name, tsrc := splitFirst(rest2)
				var dflt Expr
				if j := strings.Index(tsrc, " default "); j >= 0 {
					de, err := ParseExpr(strings.TrimSpace(tsrc[j+9:]))
					if err != nil {
						return errf("%v", err)
					}
					dflt = de
					tsrc = strings.TrimSpace(tsrc[:j])
				}
				t, err := ParseType(tsrc)
				if err != nil {
					return errf("%v", err)
				}
				if cs.GVars[name] != nil {
					return errf("duplicate ghost var %s", name)
				}
				cs.GVars[name] = &GhostVar{Name: name, T: t, Pkg: pkgPath, Default: dflt}
			case "func":
				gf, err := parseGhostFunc(rest2)
				if err != nil {
					return errf("%v", err)
				}
				gf.Pkg = pkgPath
				gf.File = file
				gf.Line = s.line
				if cs.GFuncs[gf.Name] != nil {
					return errf("duplicate ghost func %s", gf.Name)
				}
				cs.GFuncs[gf.Name] = gf
			default:
				return errf("ghost var|func expected")
			}
			cur = nil
		case "axiom", "lemma":
			name, body := splitFirst(rest)
			name = strings.TrimSuffix(name, ":")
			c, err := mkClause(kw, body)
			if err != nil {
				return err
			}
			c.Label = name
			c.File = file
			// remember the package for name resolution in Tags map under a reserved key
			c.Tags["pkg:"+pkgPath] = true
			if kw == "axiom" {
				cs.Axioms = append(cs.Axioms, c)
			} else {
				cs.Lemmas = append(cs.Lemmas, c)
			}
		default:
			if cur == nil {
				return errf("clause %q outside a func block", kw)
			}
			switch kw {
			case "props":
				cur.Props = append(cur.Props, strings.FieldsFunc(rest, func(r rune) bool { return r == ',' || r == ' ' })...)
			case "requires":
				c, err := mkClause("requires", rest)
				if err != nil {
					return err
				}
				cur.Requires = append(cur.Requires, c)
			case "ensures":
				c, err := mkClause("ensures", rest)
				if err != nil {
					return err
				}
				cur.Ensures = append(cur.Ensures, c)
			case "assert":
				c, err := mkClause("assert", rest)
				if err != nil {
					return err
				}
				if c.At == "" && c.Before == "" {
					return errf("assert needs at \"source text\" or before \"source text\"")
				}
				cur.Asserts = append(cur.Asserts, c)
			case "marks":
				// free postcondition: assumed by callers, not checked against the body. Only
				// meaningful for uninterpreted marker predicates ("this value was returned by f(x, y)").
				c, err := mkClause("marks", rest)
				if err != nil {
					return err
				}
				cur.Marks = append(cur.Marks, c)
			case "records":
				// records G = e: every call of this function is logged in the ghost variable G (a call
				// log has no counterpart in the code, so the clause is definitional: callers see G
				// change to e — evaluated over the pre-state — and nothing else changes G)
				if eq := strings.Index(rest, "="); eq < 0 {
					// records G: calls are logged in G; what is logged is said by `marks` clauses
					cur.Records = append(cur.Records, strings.TrimSpace(rest))
				} else {
					g := strings.TrimSpace(rest[:eq])
					c, err := mkClause("marks", g+" == ("+strings.TrimSpace(rest[eq+1:])+")")
					if err != nil {
						return err
					}
					cur.Marks = append(cur.Marks, c)
					cur.Records = append(cur.Records, g)
				}
			case "loop":
				nstr, r2 := splitFirst(rest)
				n, err := strconv.Atoi(nstr)
				if err != nil {
					return errf("loop ordinal expected")
				}
				kw3, r3 := splitFirst(r2)
				if kw3 != "invariant" {
					return errf("loop <n> invariant expected")
				}
				c, err := mkClause("invariant", r3)
				if err != nil {
					return err
				}
				c.Loop = n
				cur.Invs = append(cur.Invs, c)
			case "modifies":
				cur.HasMod = true
				for _, m := range strings.FieldsFunc(rest, func(r rune) bool { return r == ',' || r == ' ' }) {
					if m != "nothing" {
						cur.Modifies = append(cur.Modifies, m)
					}
				}
			case "trusted":
				cur.Trusted = true
			case "assumed":
				cur.Assumed = true
			case "pure":
				cur.Pure = true
				cur.HasMod = true
			case "nosafety":
				cur.NoSafety = true
			case "inline":
				cur.Inline = true
			case "opt":
				k, v := splitFirst(rest)
				cur.Opts[k] = strings.TrimSpace(v)
			default:
				return errf("unknown clause %q", kw)
			}
		}
	}
	return nil
}

func splitFirst(s string) (string, string) {
	s = strings.TrimSpace(s)
	j := strings.IndexAny(s, " \t")
	if j < 0 {
		return s, ""
	}
	return s[:j], strings.TrimSpace(s[j+1:])
}

// parseGhostFunc parses: name(p1 T1, p2 T2) RET [= expr]
func parseGhostFunc(src string) (*GhostFunc, error) {
	def := ""
	// find " = " at top level (outside parens) – definitions use '=' not '=='
	depth := 0
	for i := 0; i < len(src); i++ {
		switch src[i] {
		case '(', '[':
			depth++
		case ')', ']':
			depth--
		case '=':
			if depth == 0 && (i+1 >= len(src) || src[i+1] != '=') && (i == 0 || (src[i-1] != '=' && src[i-1] != '!' && src[i-1] != '<' && src[i-1] != '>')) {
				def = strings.TrimSpace(src[i+1:])
				src = strings.TrimSpace(src[:i])
				i = len(src)
			}
		}
	}
	toks, err := lex(src)
	if err != nil {
		return nil, err
	}
	p := &parser{toks: toks, src: src}
	gf := &GhostFunc{}
	var perr error
	func() {
		defer func() {
			if r := recover(); r != nil {
				if pe, ok := r.(error); ok {
					perr = pe
					return
				}
				panic(r)
			}
		}()
		t := p.next()
		if t.kind != tIdent {
			panic(fmt.Errorf("ghost func name expected in %q", src))
		}
		gf.Name = t.text
		p.expectOp("(")
		for !p.isOp(")") {
			var names []string
			for {
				n := p.next()
				names = append(names, n.text)
				if p.isOp(",") {
					p.next()
					continue
				}
				break
			}
			ty := p.parseType()
			for _, n := range names {
				gf.Params = append(gf.Params, Binder{n, ty})
			}
			if p.isOp(",") {
				p.next()
			}
		}
		p.expectOp(")")
		gf.Ret = p.parseType()
		if p.peek().kind != tEOF {
			panic(fmt.Errorf("trailing input in ghost func %q", src))
		}
	}()
	if perr != nil {
		return nil, perr
	}
	if def != "" {
		e, err := ParseExpr(def)
		if err != nil {
			return nil, err
		}
		gf.Def = e
	}
	return gf, nil
}
