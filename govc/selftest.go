package main

// Must-fail corpus: every mutant is a small patch of /repo (applied through the
// go/packages overlay, never written to disk) that must break a named obligation.

import (
	"encoding/json"
	"fmt"
	"os"
	"path/filepath"
	"regexp"
	"sort"
	"strings"
)

type Mutant struct {
	Name     string `json:"name"`
	Property string `json:"property"`
	File     string `json:"file"`
	Find     string `json:"find"`
	Replace  string `json:"replace"`
	Expect   string `json:"expect"` // substring of the obligation name that must fail
	Note     string `json:"note,omitempty"`
}

func loadMutants(verif string) ([]Mutant, error) {
	files, _ := filepath.Glob(filepath.Join(verif, "selftest", "mutants", "*.json"))
	sort.Strings(files)
	var all []Mutant
	for _, f := range files {
		var ms []Mutant
		data, err := os.ReadFile(f)
		if err != nil {
			return nil, err
		}
		if err := json.Unmarshal(data, &ms); err != nil {
			return nil, fmt.Errorf("%s: %v", f, err)
		}
		all = append(all, ms...)
	}
	return all, nil
}

func cmdSelftest(repo, verif string, args []string) int {
	muts, err := loadMutants(verif)
	if err != nil {
		fmt.Fprintln(os.Stderr, err)
		return 2
	}
	var bl Baseline
	if err := loadJSON(filepath.Join(verif, "baseline-obligations.json"), &bl); err != nil {
		fmt.Fprintln(os.Stderr, err)
		return 2
	}
	failed := 0
	ran := 0
	for _, m := range muts {
		if len(args) > 0 {
			match := false
			for _, a := range args {
				if a == m.Property || strings.Contains(m.Name, a) {
					match = true
				}
			}
			if !match {
				continue
			}
		}
		ran++
		ok, msg := runMutant(repo, verif, m, &bl)
		if ok {
			fmt.Printf("MUTANT-CAUGHT %s (%s): %s\n", m.Name, m.Property, msg)
		} else {
			failed++
			fmt.Printf("MUTANT-MISSED %s (%s): %s\n", m.Name, m.Property, msg)
		}
	}
	fmt.Printf("selftest: mutants=%d missed=%d\n", ran, failed)
	if failed > 0 {
		return 1
	}
	return 0
}

func runMutant(repo, verif string, m Mutant, bl *Baseline) (bool, string) {
	path := filepath.Join(repo, m.File)
	data, err := os.ReadFile(path)
	if err != nil {
		return false, err.Error()
	}
	src := string(data)
	if strings.Count(src, m.Find) != 1 {
		return false, fmt.Sprintf("pattern occurs %d times in %s (stale mutant)", strings.Count(src, m.Find), m.File)
	}
	mutated := strings.Replace(src, m.Find, m.Replace, 1)
	c, err := LoadCtx(repo, verif, map[string][]byte{path: []byte(mutated)})
	if err != nil {
		return false, "mutant does not load: " + firstLines(err.Error(), 3)
	}
	pr := c.encodeProperty(m.Property)
	for _, st := range pr.stale {
		if strings.Contains(st, "contract structure lost") {
			// reported as a violation (<function>/proof-structure) by the check
			return true, "contract no longer applies: " + st
		}
	}
	if len(pr.stale) > 0 {
		// an identifier / anchor text that no longer resolves: the check prints PROOF-LOST and exits 0
		return false, "PROOF-LOST in the real check (not a violation): " + pr.stale[0]
	}
	var sel []*Oblig
	for _, o := range pr.obligs {
		if strings.Contains(o.Name, m.Expect) || strings.Contains(unsplitName(o.Name), m.Expect) {
			sel = append(sel, o)
		}
	}
	if len(sel) == 0 {
		return false, "no obligation matches " + m.Expect
	}
	dir, _ := os.MkdirTemp("", "govcst")
	defer os.RemoveAll(dir)
	SolveAll(sel, dir, "quick", 0, 8)
	base := bl.Obligations[m.Property]
	for _, o := range sel {
		be, inBase := base[o.Name]
		// mirror the check: a safety obligation that is not in the baseline never alarms
		if o.Status != "discharged" && ((inBase && be.Status == "discharged") || (!inBase && o.Kind != "safety")) {
			return true, fmt.Sprintf("%s -> %s", o.Name, o.Status)
		}
		// outside the claim: counts only when the stored scenario fails on the mutated code
		if o.Status != "discharged" && hasReplay(c, o) {
			var rb strings.Builder
			if runReplay(c, o, &rb) {
				return true, fmt.Sprintf("%s -> %s, replay confirmed on the mutated code", o.Name, o.Status)
			}
		}
	}
	return false, "every obligation matching " + m.Expect + " still discharges"
}

var splitSuffix = regexp.MustCompile(`\.\d+\]`)

// unsplitName maps post[label.2]@return#1 to post[label]@return#1 (conjuncts of one clause are
// separate obligations; a mutant names the clause).
func unsplitName(n string) string { return splitSuffix.ReplaceAllString(n, "]") }
