package main

// Loading /repo (types + syntax + SSA) and the contract files.

import (
	"fmt"
	"go/ast"
	"go/constant"
	"go/token"
	"go/types"
	"os"
	"path/filepath"
	"sort"
	"strings"

	"golang.org/x/tools/go/packages"
	"golang.org/x/tools/go/ssa"
	"golang.org/x/tools/go/ssa/ssautil"
)

var targetPatterns = []string{
	"./pkg/action", "./pkg/storage", "./pkg/storage/driver", "./pkg/kube", "./pkg/release/v1", "./pkg/release/util",
	"./pkg/chart/v2", "./pkg/chart/v2/util", "./pkg/chart/v2/loader", "./pkg/strvals", "./pkg/cli/values",
	"./pkg/engine", "./pkg/repo", "./pkg/registry", "./internal/resolver", "./pkg/getter", "./pkg/downloader",
	"./pkg/provenance", "./pkg/plugin", "./pkg/plugin/installer", "./pkg/ignore", "./pkg/lint/rules", "./pkg/lint/support",
	"./pkg/cmd", "./internal/sympath", "./pkg/time", "./internal/fileutil",
}

type Ctx struct {
	repo           string
	verif          string
	pkgs           []*packages.Package
	allPkgs        map[string]*packages.Package // by path, including dependencies
	prog           *ssa.Program
	ssaPkgs        map[string]*ssa.Package
	allFuncs       map[*ssa.Function]bool
	funcByKey      map[string]*ssa.Function
	contracts      *ContractSet
	sorts          *Sorts
	ufDecls        map[string]string
	ufOrder        []string
	globals        map[string]int
	globOrder      []string
	opaque         map[string]int
	mods           *modAnalysis
	mutableGlobals map[string]bool
	writtenTables  map[string]bool
	initNonNil     map[string]bool
	initStrings    map[string][]string
	fileLines      map[string][]string
	overlay        map[string][]byte
	ghostDefaults  []string
	loadErrs       []string
}

func LoadCtx(repo, verif string, overlay map[string][]byte) (*Ctx, error) {
	c := &Ctx{repo: repo, verif: verif, allPkgs: map[string]*packages.Package{}, ssaPkgs: map[string]*ssa.Package{},
		overlay: overlay, funcByKey: map[string]*ssa.Function{}, sorts: NewSorts(), ufDecls: map[string]string{}, globals: map[string]int{}, opaque: map[string]int{}}
	cfg := &packages.Config{
		Mode:       packages.LoadSyntax,
		Dir:        repo,
		BuildFlags: []string{"-tags=verif"},
		Overlay:    overlay,
		Env:        append(os.Environ(), "GOFLAGS=-mod=mod", "GOPROXY=off"),
	}
	pkgs, err := packages.Load(cfg, targetPatterns...)
	if err != nil {
		return nil, err
	}
	for _, p := range pkgs {
		for _, e := range p.Errors {
			c.loadErrs = append(c.loadErrs, e.Error())
		}
	}
	if len(c.loadErrs) > 0 {
		return c, fmt.Errorf("/repo does not compile under -tags verif:\n%s", strings.Join(c.loadErrs, "\n"))
	}
	c.pkgs = pkgs
	packages.Visit(pkgs, nil, func(p *packages.Package) { c.allPkgs[p.PkgPath] = p })
	prog, spkgs := ssautil.Packages(pkgs, ssa.GlobalDebug|ssa.InstantiateGenerics)
	prog.Build()
	c.prog = prog
	for _, sp := range spkgs {
		if sp != nil {
			c.ssaPkgs[sp.Pkg.Path()] = sp
		}
	}
	c.allFuncs = ssautil.AllFunctions(prog)
	for fn := range c.allFuncs {
		if fn.Pkg == nil || c.ssaPkgs[fn.Pkg.Pkg.Path()] == nil {
			continue
		}
		if fn.Synthetic != "" && fn.Parent() == nil {
			continue
		}
		c.funcByKey[funcKey(fn)] = fn
	}
	// contracts
	c.contracts = NewContractSet()
	for _, p := range pkgs {
		for i, f := range p.Syntax {
			name := p.CompiledGoFiles[i]
			if filepath.Base(name) != "zz_contracts_verif.go" {
				continue
			}
			lines, nos := contractLines(p, f)
			if err := c.contracts.ParseContractText(name, p.PkgPath, lines, nos); err != nil {
				return c, err
			}
		}
	}
	specs, _ := filepath.Glob(filepath.Join(verif, "lib", "*.spec"))
	sort.Strings(specs)
	for _, sp := range specs {
		data, err := os.ReadFile(sp)
		if err != nil {
			return c, err
		}
		var lines []string
		var nos []int
		for i, l := range strings.Split(string(data), "\n") {
			l = strings.TrimSpace(l)
			if strings.HasPrefix(l, "//@") {
				l = strings.TrimPrefix(l, "//@")
			}
			lines = append(lines, l)
			nos = append(nos, i+1)
		}
		if err := c.contracts.ParseContractText(sp, "", lines, nos); err != nil {
			return c, err
		}
	}
	for name, gv := range c.contracts.GVars {
		if gv.Default != nil {
			c.ghostDefaults = append(c.ghostDefaults, name)
		}
	}
	sort.Strings(c.ghostDefaults)
	// package-level variables with an initialiser that is a call, composite literal, &literal or make()
	c.initNonNil = map[string]bool{}
	c.initStrings = map[string][]string{}
	for _, p := range pkgs {
		if p.TypesInfo == nil {
			continue
		}
		for _, init := range p.TypesInfo.InitOrder {
			if len(init.Lhs) != 1 {
				continue
			}
			if cl, ok := ast.Unparen(init.Rhs).(*ast.CompositeLit); ok {
				// a slice literal of string constants (lookup tables such as InstallOrder): remember the elements
				if _, isSlice := init.Lhs[0].Type().Underlying().(*types.Slice); isSlice {
					var elems []string
					okAll := true
					for _, el := range cl.Elts {
						tv, has := p.TypesInfo.Types[el]
						if !has || tv.Value == nil || tv.Value.Kind() != constant.String {
							okAll = false
							break
						}
						elems = append(elems, constant.StringVal(tv.Value))
					}
					if okAll && len(elems) > 0 {
						c.initStrings[p.PkgPath+"."+init.Lhs[0].Name()] = elems
					}
				}
			}
			switch x := ast.Unparen(init.Rhs).(type) {
			case *ast.CompositeLit, *ast.CallExpr, *ast.FuncLit:
				c.initNonNil[p.PkgPath+"."+init.Lhs[0].Name()] = true
			case *ast.UnaryExpr:
				_ = x
				c.initNonNil[p.PkgPath+"."+init.Lhs[0].Name()] = true
			}
		}
	}
	c.buildModAnalysis()
	return c, nil
}

func contractLines(p *packages.Package, f *ast.File) ([]string, []int) {
	var lines []string
	var nos []int
	for _, cg := range f.Comments {
		for _, cm := range cg.List {
			t := cm.Text
			if strings.HasPrefix(t, "//@") {
				lines = append(lines, strings.TrimPrefix(t, "//@"))
				nos = append(nos, p.Fset.Position(cm.Pos()).Line)
			}
		}
	}
	return lines, nos
}

// resetSymbols gives every function its own symbol tables so that its queries do
// not depend on which other functions were encoded in the same run.
func (c *Ctx) resetSymbols() {
	c.sorts = NewSorts()
	c.ufDecls = map[string]string{}
	c.ufOrder = nil
	c.globals = map[string]int{}
	c.globOrder = nil
	c.opaque = map[string]int{}
}

func (c *Ctx) pkgByPath(path string) *types.Package {
	if p, ok := c.allPkgs[path]; ok {
		return p.Types
	}
	return nil
}

// findImport resolves a package alias as seen from pkg: its own imports by name,
// `import` directives of spec files, and finally any loaded package with that name.
func (c *Ctx) findImport(pkg *types.Package, pkgPath, alias string) *types.Package {
	if m := c.contracts.Imports[pkgPath]; m != nil {
		if p, ok := m[alias]; ok {
			return c.pkgByPath(p)
		}
	}
	if m := c.contracts.Imports[""]; m != nil {
		if p, ok := m[alias]; ok {
			return c.pkgByPath(p)
		}
	}
	if pkg != nil {
		for _, imp := range pkg.Imports() {
			if imp.Name() == alias {
				return imp
			}
		}
		// the source files may rename imports
		if pp, ok := c.allPkgs[pkg.Path()]; ok {
			for _, f := range pp.Syntax {
				for _, is := range f.Imports {
					if is.Name != nil && is.Name.Name == alias {
						path := strings.Trim(is.Path.Value, "\"")
						if tp := c.pkgByPath(path); tp != nil {
							return tp
						}
					}
				}
			}
		}
	}
	return nil
}

func (c *Ctx) declareUF(name string, argSorts []string, ret string) {
	if _, ok := c.ufDecls[name]; ok {
		return
	}
	if len(argSorts) == 0 {
		c.ufDecls[name] = fmt.Sprintf("(declare-const %s %s)", q("g$"+name), qs(ret))
	} else {
		c.ufDecls[name] = fmt.Sprintf("(declare-fun %s (%s) %s)", q("g$"+name), strings.Join(argSorts, " "), qs(ret))
	}
	c.ufOrder = append(c.ufOrder, name)
}

func (c *Ctx) globalRef(v *types.Var) string {
	return c.globalRefByName(v.Pkg().Path() + "." + v.Name())
}

func (c *Ctx) globalRefByName(name string) string {
	if id, ok := c.globals[name]; ok {
		return fmt.Sprint(id)
	}
	id := len(c.globals) + 1
	c.globals[name] = id
	c.globOrder = append(c.globOrder, name)
	return fmt.Sprint(id)
}

func (c *Ctx) funcRef(name string) string { return c.globalRefByName("func:" + name) }

func (c *Ctx) nGlobals() int { return 100000 }

func (c *Ctx) opaqueConst(s string) string {
	if id, ok := c.opaque[s]; ok {
		return fmt.Sprint(id)
	}
	id := 1000000 + len(c.opaque)
	c.opaque[s] = id
	return fmt.Sprint(id)
}

func (c *Ctx) heapNameOfModifies(m string) string {
	if _, ok := c.contracts.GVars[m]; ok {
		return "G$" + m
	}
	return m
}

// sourceLine returns the text of the source line of a position (for `ensures at "..."`).
// firstLineContaining: the number of the first source line of fn's body that contains text (0: none)
func (c *Ctx) firstLineContaining(fn *ssa.Function, text string) int {
	syn := fn.Syntax()
	if syn == nil || fn.Prog == nil {
		return 0
	}
	from := fn.Prog.Fset.Position(syn.Pos())
	to := fn.Prog.Fset.Position(syn.End())
	c.sourceLine(fn, syn.Pos()) // loads the file
	lines := c.fileLines[from.Filename]
	for l := from.Line; l <= to.Line && l-1 < len(lines); l++ {
		if strings.Contains(lines[l-1], text) {
			return l
		}
	}
	return 0
}

func (c *Ctx) sourceLine(fn *ssa.Function, pos token.Pos) string {
	if !pos.IsValid() || fn.Prog == nil {
		return ""
	}
	p := fn.Prog.Fset.Position(pos)
	if c.fileLines == nil {
		c.fileLines = map[string][]string{}
	}
	lines, ok := c.fileLines[p.Filename]
	if !ok {
		var data []byte
		if ov, has := c.overlay[p.Filename]; has {
			data = ov
		} else {
			data, _ = os.ReadFile(p.Filename)
		}
		lines = strings.Split(string(data), "\n")
		c.fileLines[p.Filename] = lines
	}
	if p.Line-1 < len(lines) && p.Line >= 1 {
		return lines[p.Line-1]
	}
	return ""
}
