package main

// Replay of a failed obligation against the real code. The solvers mostly answer `unknown`
// on the quantified obligations of this project, so there is rarely a model to concretise.
// What is replayed instead is a stored scenario: /verif/replay/registry.json maps obligation
// name prefixes to a Go test (kept under /verif/replay/) that drives the real function into
// the situation the obligation speaks about. The test is injected with `go test -overlay`
// (nothing is written into /repo) and run against the tree under check — including the
// in-memory edits of a selftest mutant. A scenario that prints REPLAY-CONFIRMED is a failing
// input; anything else leaves the violation marked `no-failing-input-found`.

import (
	"context"
	"encoding/json"
	"fmt"
	"os"
	"os/exec"
	"path/filepath"
	"strings"
	"time"
)

type replayEntry struct {
	Match string `json:"match"` // substring of the obligation name
	Test  string `json:"test"`  // path of the test file relative to /verif
	Pkg   string `json:"pkg"`   // package directory relative to /repo
	Run   string `json:"run"`   // -run pattern
}

func loadReplayRegistry(verif string) []replayEntry {
	data, err := os.ReadFile(filepath.Join(verif, "replay", "registry.json"))
	if err != nil {
		return nil
	}
	var r []replayEntry
	if json.Unmarshal(data, &r) != nil {
		return nil
	}
	return r
}

// hasReplay: is there a stored scenario for this obligation?
func hasReplay(c *Ctx, o *Oblig) bool {
	for _, re := range loadReplayRegistry(c.verif) {
		if strings.Contains(o.Name, re.Match) {
			return true
		}
	}
	return false
}

func runReplay(c *Ctx, o *Oblig, b *strings.Builder) bool {
	if os.Getenv("GOVC_NO_REPLAY") != "" {
		return false
	}
	for _, re := range loadReplayRegistry(c.verif) {
		if !strings.Contains(o.Name, re.Match) {
			continue
		}
		ok, out := runScenario(c, re)
		fmt.Fprintf(b, "\nreplay: stored scenario %s (%s in %s) run against the tree under check:\n%s\n", re.Test, re.Run, re.Pkg, out)
		if ok {
			fmt.Fprintf(b, "replay verdict: REPLAY-CONFIRMED (the scenario fails on the real code)\n")
			return true
		}
		fmt.Fprintf(b, "replay verdict: not reproduced by this scenario\n")
	}
	return false
}

type scenarioResult struct {
	ok  bool
	out string
}

// one run per scenario and loaded tree (a scenario may be registered for many obligations)
var scenarioCache = map[*Ctx]map[string]scenarioResult{}

func runScenario(c *Ctx, re replayEntry) (bool, string) {
	key := re.Test + "|" + re.Pkg + "|" + re.Run
	if r, ok := scenarioCache[c][key]; ok {
		return r.ok, r.out
	}
	ok, out := runScenarioUncached(c, re)
	if scenarioCache[c] == nil {
		scenarioCache[c] = map[string]scenarioResult{}
	}
	scenarioCache[c][key] = scenarioResult{ok, out}
	return ok, out
}

func runScenarioUncached(c *Ctx, re replayEntry) (bool, string) {
	tmp, err := os.MkdirTemp("", "govc-replay")
	if err != nil {
		return false, err.Error()
	}
	defer os.RemoveAll(tmp)
	ov := map[string]string{
		filepath.Join(c.repo, re.Pkg, "zz_verif_replay_test.go"): filepath.Join(c.verif, re.Test),
	}
	i := 0
	for path, data := range c.overlay {
		f := filepath.Join(tmp, fmt.Sprintf("ov%d.go", i))
		i++
		if os.WriteFile(f, data, 0o644) != nil {
			return false, "cannot write overlay file"
		}
		ov[path] = f
	}
	js, _ := json.Marshal(map[string]interface{}{"Replace": ov})
	ovf := filepath.Join(tmp, "overlay.json")
	os.WriteFile(ovf, js, 0o644)
	ctx, cancel := context.WithTimeout(context.Background(), 5*time.Minute)
	defer cancel()
	cmd := exec.CommandContext(ctx, "go", "test", "-overlay", ovf, "-vet=off", "-count=1", "-timeout", "120s", "-run", re.Run, "./"+re.Pkg)
	cmd.Dir = c.repo
	cmd.Env = append(os.Environ(), "GOFLAGS=-mod=mod", "GOPROXY=off", "GOSUMDB=off", "GOTOOLCHAIN=local")
	out, _ := cmd.CombinedOutput()
	s := string(out)
	if len(s) > 4000 {
		s = s[:4000] + "…"
	}
	return strings.Contains(s, "REPLAY-CONFIRMED"), s
}
