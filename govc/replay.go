package main

// Replay of solver models against the real code (go test -overlay; nothing is
// written into /repo). Adapters live in /verif/replay/adapters/<name>.go.tmpl.

import "strings"

func runReplay(c *Ctx, o *Oblig, b *strings.Builder) bool {
	return false
}
