package main

func cmdCheck(repo, verif, prop, tier string) int { return 2 }
func cmdBaseline(repo, verif string) int          { return 2 }
func cmdSelftest(repo, verif string, args []string) int { return 2 }
