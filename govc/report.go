package main

// Property checks: baseline comparison, known findings, evidence, exit codes.

import (
	"crypto/sha256"
	"encoding/hex"
	"encoding/json"
	"fmt"
	"golang.org/x/tools/go/ssa"
	"os"
	"path/filepath"
	"sort"
	"strconv"
	"strings"
	"time"
)

type BaselineEntry struct {
	Status string `json:"status"` // discharged | known | undecided
	Hash   string `json:"hash"`   // hash of the query (declarations + items + guard + goal)
}

type Baseline struct {
	Note        string                              `json:"note"`
	Obligations map[string]map[string]BaselineEntry `json:"obligations"` // property -> obligation -> entry
	Functions   map[string][]string                 `json:"functions"`   // property -> function keys under contract
}

type KnownFinding struct {
	Property   string `json:"property"`
	Obligation string `json:"obligation"`
	What       string `json:"what"`
	Replay     string `json:"replay,omitempty"`
}

type FixedFinding struct {
	Property   string `json:"property"`
	Commit     string `json:"commit"`
	Obligation string `json:"obligation"`
	What       string `json:"what"`
}

type KnownFindings struct {
	Known []KnownFinding `json:"known"`
	Fixed []FixedFinding `json:"fixed"`
}

func loadJSON(path string, v interface{}) error {
	data, err := os.ReadFile(path)
	if err != nil {
		return err
	}
	return json.Unmarshal(data, v)
}

func (o *Oblig) QueryHash() string {
	e := o.enc
	h := sha256.New()
	for _, d := range e.decls {
		h.Write([]byte(d))
		h.Write([]byte{'\n'})
	}
	for _, it := range e.items[:o.Pos] {
		h.Write([]byte(it))
		h.Write([]byte{'\n'})
	}
	for _, a := range e.axioms {
		h.Write([]byte(a))
	}
	h.Write([]byte(o.Guard))
	h.Write([]byte(o.Goal))
	return hex.EncodeToString(h.Sum(nil))[:16]
}

func hasProp(props []string, p string) bool {
	for _, x := range props {
		if x == p {
			return true
		}
	}
	return false
}

// propFunctions lists the functions under contract that serve a property.
func (c *Ctx) propFunctions(prop string) []string {
	var keys []string
	for _, k := range c.contracts.Order {
		fc := c.contracts.Funcs[k]
		if fc.Trusted || (fc.Assumed && c.funcByKey[k] == nil) {
			continue
		}
		if fc.Assumed {
			continue
		}
		serves := hasProp(fc.Props, prop)
		if !serves {
			for _, cl := range append(append(append(append([]*Clause{}, fc.Requires...), fc.Ensures...), fc.Invs...), fc.Asserts...) {
				if cl.Tags[prop] {
					serves = true
				}
			}
		}
		if serves {
			keys = append(keys, k)
		}
	}
	// a tagged precondition is discharged in the callers: include the functions under contract
	// that call a function whose requires clause carries the property tag
	tagged := map[*ssa.Function]bool{}
	for _, k := range c.contracts.Order {
		fc := c.contracts.Funcs[k]
		for _, cl := range fc.Requires {
			if cl.Tags[prop] && c.funcByKey[k] != nil {
				tagged[c.funcByKey[k]] = true
			}
		}
	}
	if len(tagged) > 0 {
		have := map[string]bool{}
		for _, k := range keys {
			have[k] = true
		}
		for _, k := range c.contracts.Order {
			fc := c.contracts.Funcs[k]
			fn := c.funcByKey[k]
			if have[k] || fc.Trusted || fc.Assumed || fn == nil {
				continue
			}
			calls := false
			for _, b := range fn.Blocks {
				for _, in := range b.Instrs {
					if ci, ok := in.(ssa.CallInstruction); ok {
						if sc := ci.Common().StaticCallee(); sc != nil && tagged[sc] {
							calls = true
						}
					}
				}
			}
			if calls {
				keys = append(keys, k)
			}
		}
	}
	return keys
}

type propRun struct {
	prop      string
	encs      []*Enc
	obligs    []*Oblig // obligations that count for the property
	detached  []string
	stale     []string // contract no longer type-checks
	funcs     []string
	wallStart time.Time
}

func (c *Ctx) encodeProperty(prop string) *propRun {
	pr := &propRun{prop: prop, wallStart: time.Now()}
	pr.funcs = c.propFunctions(prop)
	for _, k := range pr.funcs {
		if c.funcByKey[k] == nil {
			pr.detached = append(pr.detached, k)
			continue
		}
		e, err := c.EncodeFunc(k)
		if err != nil {
			if strings.HasPrefix(err.Error(), "contract detached") {
				pr.detached = append(pr.detached, k)
			} else {
				pr.stale = append(pr.stale, k+": "+err.Error())
			}
			continue
		}
		pr.encs = append(pr.encs, e)
		for _, o := range e.obligs {
			if hasProp(o.Props, prop) {
				pr.obligs = append(pr.obligs, o)
			}
		}
	}
	// lemmas
	hasLemma := false
	for _, lm := range c.contracts.Lemmas {
		if lm.Tags[prop] {
			hasLemma = true
		}
	}
	if hasLemma {
		le, err := c.EncodeLemmas()
		if err != nil {
			pr.stale = append(pr.stale, "lemmas: "+err.Error())
		} else {
			pr.encs = append(pr.encs, le)
			for _, o := range le.obligs {
				if hasProp(o.Props, prop) {
					pr.obligs = append(pr.obligs, o)
				}
			}
		}
	}
	return pr
}

func seedFromEnv() int {
	if s := os.Getenv("VERIF_SEED"); s != "" {
		if n, err := strconv.Atoi(s); err == nil {
			return n
		}
	}
	return 0
}

func cmdBaseline(repo, verif string) int {
	c, err := LoadCtx(repo, verif, nil)
	if err != nil {
		fmt.Fprintln(os.Stderr, err)
		return 2
	}
	var kf KnownFindings
	_ = loadJSON(filepath.Join(verif, "known-findings.json"), &kf)
	known := map[string]bool{}
	for _, k := range kf.Known {
		known[k.Property+"|"+k.Obligation] = true
	}
	props := map[string]bool{}
	for _, k := range c.contracts.Order {
		for _, p := range c.contracts.Funcs[k].Props {
			props[p] = true
		}
		fc := c.contracts.Funcs[k]
		for _, cl := range append(append(append(append([]*Clause{}, fc.Requires...), fc.Ensures...), fc.Invs...), fc.Asserts...) {
			for t := range cl.Tags {
				if !strings.HasPrefix(t, "pkg:") {
					props[t] = true
				}
			}
		}
	}
	for _, lm := range c.contracts.Lemmas {
		for t := range lm.Tags {
			if !strings.HasPrefix(t, "pkg:") {
				props[t] = true
			}
		}
	}
	var plist []string
	for p := range props {
		plist = append(plist, p)
	}
	sort.Strings(plist)
	bl := Baseline{Note: "generated by `govc baseline` from the unchanged tree; names and expected status of every obligation", Obligations: map[string]map[string]BaselineEntry{}, Functions: map[string][]string{}}
	dir, _ := os.MkdirTemp("", "govc")
	defer os.RemoveAll(dir)
	rc := 0
	for _, p := range plist {
		pr := c.encodeProperty(p)
		for _, s := range pr.stale {
			fmt.Println("CONTRACT ERROR", s)
			rc = 2
		}
		for _, d := range pr.detached {
			fmt.Println("DETACHED", d)
			rc = 2
		}
		SolveAll(pr.obligs, dir, "quick", 0, 8)
		bl.Obligations[p] = map[string]BaselineEntry{}
		bl.Functions[p] = pr.funcs
		nd, nk, nu := 0, 0, 0
		for _, o := range pr.obligs {
			st := "undecided"
			switch {
			case o.Kind == "vacuity" && o.Status != "discharged":
				st = "dead"
				fmt.Printf("  dead under the contracts (reachability twin refuted): %s\n", o.Name)
				bl.Obligations[p][o.Name] = BaselineEntry{Status: st, Hash: o.QueryHash()}
				continue
			case o.Status == "discharged":
				st = "discharged"
				nd++
			case known[p+"|"+o.Name]:
				st = "known"
				nk++
			default:
				nu++
				fmt.Printf("  not discharged (outside the claim): %s [%s] %s\n", o.Name, o.Status, o.Src)
			}
			bl.Obligations[p][o.Name] = BaselineEntry{Status: st, Hash: o.QueryHash()}
		}
		fmt.Printf("%s: functions=%d obligations=%d discharged=%d known=%d unclaimed=%d\n", p, len(pr.funcs), len(pr.obligs), nd, nk, nu)
	}
	data, _ := json.MarshalIndent(bl, "", " ")
	if err := os.WriteFile(filepath.Join(verif, "baseline-obligations.json"), append(data, '\n'), 0o644); err != nil {
		fmt.Fprintln(os.Stderr, err)
		return 2
	}
	return rc
}

type obligReport struct {
	Name   string `json:"name"`
	Kind   string `json:"kind"`
	Status string `json:"status"`
	Solver string `json:"solver,omitempty"`
	Ms     int64  `json:"ms"`
	Clause string `json:"clause,omitempty"`
}

func cmdCheck(repo, verif, prop, tier string) int {
	t0 := time.Now()
	seed := seedFromEnv()
	if tier != "quick" && tier != "thorough" {
		fmt.Fprintln(os.Stderr, "tier must be quick or thorough")
		return 2
	}
	evDir := filepath.Join(verif, "evidence")
	os.MkdirAll(evDir, 0o755)
	evFile := filepath.Join(evDir, prop+".json")
	c, err := LoadCtx(repo, verif, nil)
	if err != nil {
		// /repo does not compile under -tags verif: not a verification outcome
		fmt.Fprintln(os.Stderr, err)
		return 2
	}
	var bl Baseline
	if err := loadJSON(filepath.Join(verif, "baseline-obligations.json"), &bl); err != nil {
		fmt.Fprintln(os.Stderr, "cannot read baseline-obligations.json:", err)
		return 2
	}
	var kf KnownFindings
	_ = loadJSON(filepath.Join(verif, "known-findings.json"), &kf)
	known := map[string]KnownFinding{}
	for _, k := range kf.Known {
		if k.Property == prop {
			known[k.Obligation] = k
		}
	}
	base := bl.Obligations[prop]
	if len(base) == 0 {
		fmt.Fprintf(os.Stderr, "property %s has no claimed obligations in the baseline\n", prop)
		return 2
	}
	pr := c.encodeProperty(prop)
	dir, _ := os.MkdirTemp("", "govc")
	defer os.RemoveAll(dir)

	// quick tier: reachability twins at returns / loop heads are left to the thorough tier
	if tier == "quick" {
		var keep []*Oblig
		for _, o := range pr.obligs {
			if o.Kind == "vacuity" && strings.Contains(o.Name, "/reachable@") {
				continue
			}
			keep = append(keep, o)
		}
		pr.obligs = keep
	}
	// which obligations are solved: everything generated for the property
	SolveAll(pr.obligs, dir, tier, seed, 6)

	// retry undecided obligations whose query is unchanged (solver instability)
	for _, o := range pr.obligs {
		be, inBase := base[o.Name]
		if o.Status == "undecided" && inBase && be.Status == "discharged" && be.Hash == o.QueryHash() {
			for _, s := range []int{seed + 1, seed + 7} {
				o.Status, o.Solver, o.Confirm = "", "", nil
				o.Solve(dir, "thorough", s)
				if o.Status == "discharged" {
					break
				}
			}
		}
	}

	// second attempt with a longer limit for obligations that discharged on the unchanged tree and
	// are undecided now (at most 24 of them: a real change leaves many, and those stay undecided)
	if tier == "quick" {
		var again []*Oblig
		for _, o := range pr.obligs {
			be, inBase := base[o.Name]
			if o.Status == "undecided" && o.Kind != "vacuity" && (!inBase || be.Status == "discharged") && len(again) < 24 {
				again = append(again, o)
			}
		}
		for _, o := range again {
			o.Status, o.Solver, o.Confirm = "", "", nil
		}
		SolveAll(again, dir, "retry", seed+3, 4)
	}

	replayDir := filepath.Join(evDir, "replays", prop)
	os.RemoveAll(replayDir)
	violations := 0
	var lines []string
	var reports []obligReport
	nClaimed, nDischarged, nKnown := 0, 0, 0
	var solverMs int64
	var undecidedNew []string
	var noLonger []string
	var unstable []string
	var vacuous []string
	seen := map[string]bool{}
	reported := map[string]bool{}
	violate := func(name, why string, o *Oblig) {
		violations++
		// one VIOLATION line per (function, clause): further return sites / back edges of the
		// same clause are listed in the evidence and in the replay file of the first one
		group := name
		if i := strings.Index(name, "@"); i >= 0 {
			group = name[:i]
		}
		if reported[group] {
			return
		}
		reported[group] = true
		os.MkdirAll(replayDir, 0o755)
		rf := filepath.Join(replayDir, sanitize(strings.TrimPrefix(name, "helm.sh/helm/v4/"))+".txt")
		var b strings.Builder
		fmt.Fprintf(&b, "property: %s\nfailed obligation: %s\nreason: %s\n", prop, name, why)
		suffix := " no-failing-input-found"
		if o != nil {
			fmt.Fprintf(&b, "clause: %s\nclause location: %s:%d\nstatus: %s\nsolver output:\n%s\n", o.Src, o.File, o.Line, o.Status, o.Output)
			if o.Model != "" {
				fmt.Fprintf(&b, "\nsolver model (counterexample to the obligation, over the function's inputs and the typed heaps):\n%s\n", o.Model)
			}
			if rp := c.tryReplay(o, &b); rp {
				suffix = ""
			}
			fmt.Fprintf(&b, "\nquery hash: %s\n", o.QueryHash())
		} else if runReplay(c, &Oblig{Name: name}, &b) {
			// no obligation to show (the contract no longer attaches); a stored scenario registered
			// for this function still says whether the real code misbehaves
			suffix = ""
		}
		os.WriteFile(rf, []byte(b.String()), 0o644)
		lines = append(lines, fmt.Sprintf("VIOLATION property=%s replay=%s%s", prop, rf, suffix))
	}
	for _, d := range pr.detached {
		violate(d, "contract detached: the function under contract no longer exists in the loaded packages", nil)
	}
	for _, o := range pr.obligs {
		seen[o.Name] = true
		solverMs += o.Ms
		be, inBase := base[o.Name]
		if o.Kind == "vacuity" {
			if o.Status != "discharged" {
				if inBase && be.Status != "discharged" {
					// a return that is dead under the callee contracts already on the unchanged tree
					continue
				}
				vacuous = append(vacuous, o.Name)
				lines = append(lines, fmt.Sprintf("VACUITY-WARNING: %s: %s (obligations behind this point are vacuous; this is reported, it is not a property violation)", o.Name, o.Src))
			}
			continue
		}
		claimed := false
		switch {
		case inBase && (be.Status == "discharged" || be.Status == "known"):
			claimed = true
		case !inBase && o.Kind != "safety":
			// a new return site / back edge / call site of a function under contract
			claimed = true
		}
		rep := obligReport{Name: o.Name, Kind: o.Kind, Status: o.Status, Solver: o.Solver, Ms: o.Ms, Clause: o.Src}
		if kfnd, isKnown := known[o.Name]; isKnown {
			if o.Status == "discharged" {
				noLonger = append(noLonger, o.Name)
				rep.Status = "discharged (listed as known finding: no longer reproduces)"
			} else {
				nKnown++
				lines = append(lines, fmt.Sprintf("KNOWN-FINDING: property=%s %s [%s]", prop, kfnd.What, o.Name))
				rep.Status = "known-finding (" + o.Status + ")"
			}
			reports = append(reports, rep)
			continue
		}
		if !claimed {
			if o.Status != "discharged" {
				// outside the claim (a safety obligation that is new or was not discharged on the
				// unchanged tree): it alarms only when a stored scenario for this obligation fails
				// on the real code — a refutation is trusted when it replays, never on its own
				if hasReplay(c, o) {
					var rb strings.Builder
					if runReplay(c, o, &rb) {
						violate(o.Name, "the obligation is not discharged ("+o.Status+") and the stored scenario for it fails on the real code", o)
						rep.Status += " (outside the claim; replay confirmed)"
						reports = append(reports, rep)
						continue
					}
				}
				undecidedNew = append(undecidedNew, o.Name+" ["+o.Status+"]")
			}
			rep.Status += " (outside the claim)"
			reports = append(reports, rep)
			continue
		}
		nClaimed++
		reports = append(reports, rep)
		switch o.Status {
		case "discharged":
			nDischarged++
		case "refuted":
			violate(o.Name, "the obligation is refuted: a solver found a state of the function that satisfies every assumption and falsifies the clause", o)
		default:
			if inBase && be.Hash == o.QueryHash() {
				unstable = append(unstable, o.Name)
				lines = append(lines, fmt.Sprintf("UNSTABLE: %s did not discharge although its query is byte-identical to the baseline query (solver instability, not a code change)", o.Name))
				continue
			}
			violate(o.Name, "the obligation discharged on the unchanged tree and no longer does ("+o.Status+")", o)
		}
	}
	// claimed obligations that disappeared together with their function are covered by `detached`.
	var proofLost []string
	for _, s := range pr.stale {
		if i := strings.Index(s, ": contract structure lost"); i >= 0 {
			// the loop (or loop kind) an invariant is attached to is gone: every obligation of the
			// function that discharged on the unchanged tree can no longer be established. Unlike an
			// identifier that merely stopped resolving (PROOF-LOST below: a rename), this is a change
			// of the iteration structure the proof rests on, and it is reported as a violation.
			fnKey := s[:i]
			had := false
			for name, be := range base {
				if strings.HasPrefix(name, fnKey+"/") && be.Status == "discharged" {
					had = true
				}
			}
			if had {
				violate(fnKey+"/proof-structure", "the obligations of this function discharged on the unchanged tree and can no longer be established: "+s[i+2:], nil)
				continue
			}
		}
		proofLost = append(proofLost, s)
		lines = append(lines, "PROOF-LOST: "+s)
	}

	// evidence
	var fuc []map[string]interface{}
	assumed := map[string]bool{}
	unknown := map[string]bool{}
	var warnings []string
	for _, e := range pr.encs {
		if e.fn == nil {
			continue
		}
		fuc = append(fuc, map[string]interface{}{"function": e.key, "location": posOf(e.fn, e.fn.Pos()), "obligations": len(e.obligs)})
		for k := range e.assumed {
			assumed[k] = true
		}
		for k := range e.unknown {
			unknown[k] = true
		}
		for _, n := range e.axiomNames {
			assumed["axiom "+n] = true
		}
		for _, w := range e.warnings {
			warnings = append(warnings, e.key+": "+w)
		}
	}
	var samples []interface{}
	for i, o := range pr.obligs {
		if i%maxInt(1, len(pr.obligs)/3) == 0 && len(samples) < 4 {
			samples = append(samples, map[string]interface{}{"obligation": o.Name, "clause": o.Src, "status": o.Status, "guard": o.Guard, "goal_smt": truncate(o.Goal, 600), "background_items": o.Pos})
		}
	}
	trusted := []string{
		"govc itself (contract parser, SSA->SMT translation, mod-set analysis) and golang.org/x/tools/go/ssa v0.29.0",
		"the SMT solvers z3 4.8.12, z3 5.1.0, cvc5 1.0 (quick: first definite answer of the three; thorough: all three are asked, none may find a counterexample, the number of confirmations is recorded)",
		"machine integers treated as mathematical integers (overflow obligations only in functions marked `opt arith checked`)",
		"strings are SMT sequences of characters (len counts characters, not bytes)",
		"append never shares storage with its first argument (default model); interior pointers that escape are havocked",
		"termination is not proved; goroutine launches are read sequentially",
	}
	trusted = append(trusted, sortedKeys(assumed, "assumed contract: ")...)
	trusted = append(trusted, sortedKeys(unknown, "callee without contract (result havocked, frame = computed mod-set): ")...)
	for k := range c.mods.externUsed {
		_ = k
	}
	ev := map[string]interface{}{
		"property_id": prop,
		"tier":        tier,
		"seed":        seed,
		"level":       "proof",
		"coverage": map[string]interface{}{
			"obligations":                nClaimed,
			"discharged":                 nDischarged,
			"checker_cmd":                fmt.Sprintf("./check %s %s  (govc check: go/ssa -> SMT-LIB -> z3 4.8.12 | z3 5.1.0 | cvc5 1.0)", prop, tier),
			"trusted_base":               trusted,
			"samples":                    samples,
			"functions_under_contract":   fuc,
			"per_obligation":             reports,
			"solver_time_s":              float64(solverMs) / 1000,
			"known_findings":             nKnown,
			"known_no_longer_reproduces": noLonger,
			"outside_claim_undischarged": undecidedNew,
			"unstable":                   unstable,
			"vacuous_points":             vacuous,
			"proof_lost":                 proofLost,
			"contract_detached":          pr.detached,
			"unmodelled":                 warnings,
		},
		"assumptions": trusted,
		"wall_s":      time.Since(t0).Seconds(),
		"violations":  violations,
	}
	data, _ := json.MarshalIndent(ev, "", " ")
	os.WriteFile(evFile, append(data, '\n'), 0o644)

	for _, l := range lines {
		fmt.Println(l)
	}
	fmt.Printf("property=%s tier=%s functions=%d obligations=%d discharged=%d known=%d outside_claim=%d proof_lost=%d violations=%d wall=%.1fs\n",
		prop, tier, len(pr.funcs), nClaimed, nDischarged, nKnown, len(undecidedNew), len(proofLost), violations, time.Since(t0).Seconds())
	if nClaimed == 0 && nKnown == 0 && violations == 0 {
		fmt.Println("ERROR: no obligations were generated for this property (vacuous run)")
		return 2
	}
	if violations > 0 {
		return 1
	}
	return 0
}

func sortedKeys(m map[string]bool, prefix string) []string {
	var r []string
	for k := range m {
		r = append(r, prefix+k)
	}
	sort.Strings(r)
	return r
}

func maxInt(a, b int) int {
	if a > b {
		return a
	}
	return b
}

func truncate(s string, n int) string {
	if len(s) > n {
		return s[:n] + "…"
	}
	return s
}

// tryReplay runs a replay adapter for the obligation's function if one exists.
func (c *Ctx) tryReplay(o *Oblig, b *strings.Builder) bool {
	return runReplay(c, o, b)
}
