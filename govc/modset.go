package main

// Mod-set analysis: which typed heaps and ghost variables a call may write.
// Computed mechanically over the SSA of all loaded helm packages (fixpoint over a
// CHA-style call graph). For callees without body (other modules) the answer is
// type-based: heaps reachable from the pointer-like parameter types, nothing for
// the packages on the read-only list. Both are assumptions about code govc does
// not verify and are listed in the evidence.

import (
	"go/types"
	"sort"
	"strings"

	"golang.org/x/tools/go/ssa"
)

type ModKind int

const (
	ModFresh ModKind = 1 // only objects allocated inside the callee / loop are written
	ModAny   ModKind = 2
)

type ModSet struct {
	m map[string]ModKind
	// opaque: the call may reach code without a body (other modules, assumed contracts)
	// that can return freshly allocated objects whose fields live in heaps outside m
	opaque bool
}

func (ms ModSet) Get(name string) (ModKind, bool) {
	k, ok := ms.m[name]
	return k, ok
}

func (ms *ModSet) add(name string, k ModKind) bool {
	if ms.m == nil {
		ms.m = map[string]ModKind{}
	}
	if old, ok := ms.m[name]; ok && old >= k {
		return false
	}
	ms.m[name] = k
	return true
}

func (ms *ModSet) union(o ModSet) bool {
	ch := false
	if o.opaque && !ms.opaque {
		ms.opaque = true
		ch = true
	}
	for k, v := range o.m {
		if ms.add(k, v) {
			ch = true
		}
	}
	return ch
}

var readOnlyPkgs = map[string]bool{
	"fmt": true, "errors": true, "strings": true, "strconv": true, "path": true, "path/filepath": true,
	"log": true, "log/slog": true, "time": true, "regexp": true, "unicode": true, "unicode/utf8": true,
	"bytes": false, "math": true, "os": true, "io": false, "sort": false, "slices": false, "maps": false,
	"github.com/pkg/errors": true, "github.com/Masterminds/semver/v3": true, "net/url": true,
	"k8s.io/apimachinery/pkg/api/errors": true, "reflect": true, "context": true, "io/fs": true,
	"k8s.io/apimachinery/pkg/api/meta": true, "k8s.io/apimachinery/pkg/labels": true,
	"k8s.io/apimachinery/pkg/util/validation": true, "text/template": true, "crypto/sha256": true,
	"encoding/hex": true, "encoding/base64": true, "sync": true, "sync/atomic": true,
	"k8s.io/apimachinery/pkg/runtime/schema": true, "k8s.io/apimachinery/pkg/apis/meta/v1": true,
	"github.com/cyphar/filepath-securejoin": true, "mime": true, "net/http": true, "runtime": true,
	"k8s.io/client-go/kubernetes/typed/core/v1": true, "k8s.io/apimachinery/pkg/runtime": true,
	"k8s.io/cli-runtime/pkg/resource": true, "io/ioutil": true, "os/exec": true, "math/big": true,
	"github.com/Masterminds/sprig/v3": true, "golang.org/x/term": true, "syscall": true, "os/user": true,
	"k8s.io/apimachinery/pkg/util/wait": false, "k8s.io/apimachinery/pkg/fields": true,
	"k8s.io/apimachinery/pkg/types": true, "k8s.io/apimachinery/pkg/watch": true,
	"k8s.io/client-go/tools/cache": true, "k8s.io/client-go/tools/watch": false,
	"k8s.io/client-go/util/retry": false, "github.com/santhosh-tekuri/jsonschema/v6": true,
	"archive/tar": true, "compress/gzip": true, "bufio": true, "crypto": true, "golang.org/x/crypto/openpgp": true,
	"golang.org/x/crypto/openpgp/clearsign": true, "golang.org/x/crypto/openpgp/packet": true,
	"github.com/gobwas/glob": true, "github.com/gosuri/uitable": true,
}

// functions of otherwise writing packages that only read their arguments
var readOnlyFuncs = map[string]bool{
	"encoding/json.Marshal": true, "encoding/json.MarshalIndent": true, "encoding/json.Valid": true,
	"sigs.k8s.io/yaml.Marshal": true, "sigs.k8s.io/yaml.JSONToYAML": true, "sigs.k8s.io/yaml.YAMLToJSON": true,
	"bytes.NewReader": true, "bytes.NewBuffer": true, "bytes.NewBufferString": true, "bytes.Equal": true,
	"bytes.HasPrefix": true, "bytes.TrimPrefix": true, "bytes.TrimSpace": true, "bytes.Contains": true,
	"io.ReadAll": true, "sort.Strings": false, "sort.Reverse": true, "sort.IsSorted": true, "sort.SearchStrings": true,
}

type modAnalysis struct {
	ctx        *Ctx
	summary    map[*ssa.Function]*ModSet
	addrTaken  map[string][]*ssa.Function // signature string -> functions used as values
	methods    map[string][]*ssa.Function // method name -> concrete methods in loaded packages
	reachCache map[string]ModSet
	externUsed map[string]bool
	// paramCalls[f][i]: f calls its i-th parameter (a function value); resolved at f's call sites
	paramCalls map[*ssa.Function]map[int]bool
}

func (c *Ctx) buildModAnalysis() {
	ma := &modAnalysis{ctx: c, summary: map[*ssa.Function]*ModSet{}, addrTaken: map[string][]*ssa.Function{}, methods: map[string][]*ssa.Function{}, reachCache: map[string]ModSet{}, externUsed: map[string]bool{}, paramCalls: map[*ssa.Function]map[int]bool{}}
	c.mods = ma
	var fns []*ssa.Function
	for fn := range c.allFuncs {
		if len(fn.Blocks) > 0 {
			fns = append(fns, fn)
		}
	}
	sort.Slice(fns, func(i, j int) bool { return fns[i].String() < fns[j].String() })
	// address-taken functions and methods
	seenAT := map[*ssa.Function]bool{}
	for _, fn := range fns {
		if fn.Signature.Recv() != nil {
			ma.methods[fn.Name()] = append(ma.methods[fn.Name()], fn)
		}
		for _, b := range fn.Blocks {
			for _, in := range b.Instrs {
				var ops []*ssa.Value
				ops = in.Operands(ops)
				for i, op := range ops {
					if op == nil || *op == nil {
						continue
					}
					var target *ssa.Function
					switch v := (*op).(type) {
					case *ssa.Function:
						// the callee position of a static call is not "address taken"
						if ci, ok := in.(ssa.CallInstruction); ok && i == 0 && ci.Common().Value == v {
							continue
						}
						target = v
					case *ssa.MakeClosure:
						target, _ = v.Fn.(*ssa.Function)
					}
					if target != nil && !seenAT[target] {
						seenAT[target] = true
						k := sigKey(target.Signature)
						ma.addrTaken[k] = append(ma.addrTaken[k], target)
					}
				}
				if mc, ok := in.(*ssa.MakeClosure); ok {
					if target, _ := mc.Fn.(*ssa.Function); target != nil && !seenAT[target] {
						seenAT[target] = true
						k := sigKey(target.Signature)
						ma.addrTaken[k] = append(ma.addrTaken[k], target)
					}
				}
			}
		}
	}
	for _, fn := range fns {
		ma.summary[fn] = &ModSet{}
	}
	// package-level variables that are written outside package initialisers or whose
	// address is used as a value are mutable; all others are constants after init
	c.mutableGlobals = map[string]bool{}
	for _, fn := range fns {
		isInit := fn.Name() == "init" || strings.HasPrefix(fn.Name(), "init#")
		for _, b := range fn.Blocks {
			for _, in := range b.Instrs {
				var ops []*ssa.Value
				ops = in.Operands(ops)
				for _, op := range ops {
					if op == nil || *op == nil {
						continue
					}
					g, ok := (*op).(*ssa.Global)
					if !ok {
						continue
					}
					switch x := in.(type) {
					case *ssa.UnOp:
						continue // load
					case *ssa.Store:
						if x.Addr == ssa.Value(g) && isInit {
							continue
						}
					case *ssa.DebugRef:
						continue
					}
					c.mutableGlobals[g.String()] = true
				}
			}
		}
	}
	// string tables: a table whose elements are assigned through its own name (T[i] = .., sort.X(T))
	// outside package initialisers does not keep its elements
	c.writtenTables = map[string]bool{}
	var rootGlobal func(v ssa.Value, d int) *ssa.Global
	rootGlobal = func(v ssa.Value, d int) *ssa.Global {
		if d > 6 {
			return nil
		}
		switch x := v.(type) {
		case *ssa.Global:
			return x
		case *ssa.UnOp:
			return rootGlobal(x.X, d+1)
		case *ssa.ChangeType:
			return rootGlobal(x.X, d+1)
		case *ssa.Convert:
			return rootGlobal(x.X, d+1)
		case *ssa.Slice:
			return rootGlobal(x.X, d+1)
		case *ssa.MakeInterface:
			return rootGlobal(x.X, d+1)
		case *ssa.IndexAddr:
			return rootGlobal(x.X, d+1)
		}
		return nil
	}
	for _, fn := range fns {
		if fn.Name() == "init" || strings.HasPrefix(fn.Name(), "init#") {
			continue
		}
		for _, b := range fn.Blocks {
			for _, in := range b.Instrs {
				switch x := in.(type) {
				case *ssa.Store:
					if ia, ok := x.Addr.(*ssa.IndexAddr); ok {
						if g := rootGlobal(ia, 0); g != nil {
							c.writtenTables[g.String()] = true
						}
					}
				case ssa.CallInstruction:
					if sc := x.Common().StaticCallee(); sc != nil && isSortPkgFunc(sc) {
						for _, a := range x.Common().Args {
							if g := rootGlobal(a, 0); g != nil {
								c.writtenTables[g.String()] = true
							}
						}
					}
				}
			}
		}
	}
	// fixpoint
	for iter := 0; iter < 50; iter++ {
		changed := false
		for _, fn := range fns {
			ms := ma.summary[fn]
			for _, b := range fn.Blocks {
				for _, in := range b.Instrs {
					im := ma.instrMods(fn, in, func(ssa.Instruction) bool { return true })
					if ms.union(im) {
						changed = true
					}
				}
			}
		}
		if !changed {
			break
		}
	}
}

func sigKey(sig *types.Signature) string {
	// parameter and result *types* only: names and the receiver do not matter for CHA by signature
	var b strings.Builder
	b.WriteString("func(")
	for i := 0; i < sig.Params().Len(); i++ {
		if i > 0 {
			b.WriteString(",")
		}
		if sig.Variadic() && i == sig.Params().Len()-1 {
			b.WriteString("...")
		}
		b.WriteString(types.TypeString(sig.Params().At(i).Type(), nil))
	}
	b.WriteString(")(")
	for i := 0; i < sig.Results().Len(); i++ {
		if i > 0 {
			b.WriteString(",")
		}
		b.WriteString(types.TypeString(sig.Results().At(i).Type(), nil))
	}
	b.WriteString(")")
	return b.String()
}

// isFreshRoot: is the object designated by v certainly allocated by an
// instruction for which inScope holds (or nil)?
func isFreshRoot(v ssa.Value, inScope func(ssa.Instruction) bool, seen map[ssa.Value]bool) bool {
	if seen[v] {
		return true
	}
	seen[v] = true
	switch x := v.(type) {
	case *ssa.Const:
		return x.Value == nil
	case *ssa.Alloc:
		return inScope(x)
	case *ssa.MakeMap:
		return inScope(x)
	case *ssa.MakeSlice:
		return inScope(x)
	case *ssa.MakeClosure:
		return inScope(x)
	case *ssa.Slice:
		return isFreshRoot(x.X, inScope, seen)
	case *ssa.FieldAddr:
		return isFreshRoot(x.X, inScope, seen)
	case *ssa.IndexAddr:
		return isFreshRoot(x.X, inScope, seen)
	case *ssa.ChangeType:
		return isFreshRoot(x.X, inScope, seen)
	case *ssa.Phi:
		for _, ed := range x.Edges {
			if !isFreshRoot(ed, inScope, seen) {
				return false
			}
		}
		return true
	case *ssa.Call:
		if b, ok := x.Call.Value.(*ssa.Builtin); ok && b.Name() == "append" {
			return inScope(x) && isFreshRoot(x.Call.Args[0], inScope, seen)
		}
	}
	return false
}

func kindOf(fresh bool) ModKind {
	if fresh {
		return ModFresh
	}
	return ModAny
}

// heapsOfAddr gives the heaps written by a store through addr.
func (ma *modAnalysis) heapsOfAddr(addr ssa.Value) []string {
	_ = 0
	switch a := addr.(type) {
	case *ssa.FieldAddr:
		// walk up nested FieldAddrs to the outermost pointer-to-struct
		var chain []*ssa.FieldAddr
		cur := ssa.Value(a)
		for {
			fa, ok := cur.(*ssa.FieldAddr)
			if !ok {
				break
			}
			chain = append(chain, fa)
			cur = fa.X
		}
		outer := chain[len(chain)-1]
		if ia, ok := outer.X.(*ssa.IndexAddr); ok {
			return ma.heapsOfAddr(ia)
		}
		pt, ok := outer.X.Type().Underlying().(*types.Pointer)
		if !ok {
			return nil
		}
		st, ok := pt.Elem().Underlying().(*types.Struct)
		if !ok {
			return nil
		}
		return []string{fieldHeapName(pt.Elem(), st.Field(outer.Field))}
	case *ssa.IndexAddr:
		switch u := a.X.Type().Underlying().(type) {
		case *types.Slice:
			return []string{elemHeapName(u.Elem())}
		case *types.Pointer:
			if ar, ok := u.Elem().Underlying().(*types.Array); ok {
				return []string{elemHeapName(ar.Elem())}
			}
		}
		return nil
	}
	pt, ok := addr.Type().Underlying().(*types.Pointer)
	if !ok {
		return nil
	}
	return ma.heapsOfType(pt.Elem())
}

// heapsOfType: heaps that hold a value of type t stored at one address.
func (ma *modAnalysis) heapsOfType(t types.Type) []string {
	_ = 0
	switch u := t.Underlying().(type) {
	case *types.Struct:
		var r []string
		for i := 0; i < u.NumFields(); i++ {
			r = append(r, fieldHeapName(t, u.Field(i)))
		}
		return r
	case *types.Array:
		return []string{elemHeapName(u.Elem())}
	}
	return []string{cellHeapName(t)}
}

func (ma *modAnalysis) instrMods(fn *ssa.Function, in ssa.Instruction, inScope func(ssa.Instruction) bool) ModSet {
	_ = 0
	var ms ModSet
	switch x := in.(type) {
	case *ssa.Store:
		k := kindOf(isFreshRoot(x.Addr, inScope, map[ssa.Value]bool{}))
		for _, h := range ma.heapsOfAddr(x.Addr) {
			ms.add(h, k)
		}
	case *ssa.MapUpdate:
		m := x.Map.Type().Underlying().(*types.Map)
		hp, hv, hl := mapHeapNames(m)
		k := kindOf(isFreshRoot(x.Map, inScope, map[ssa.Value]bool{}))
		ms.add(hp, k)
		ms.add(hv, k)
		ms.add(hl, k)
	case *ssa.Alloc:
		ms.add("$alloc", ModAny)
		el := x.Type().Underlying().(*types.Pointer).Elem()
		for _, h := range ma.heapsOfType(el) {
			ms.add(h, ModFresh)
		}
	case *ssa.MakeMap:
		ms.add("$alloc", ModAny)
		hp, hv, hl := mapHeapNames(x.Type().Underlying().(*types.Map))
		ms.add(hp, ModFresh)
		ms.add(hv, ModFresh)
		ms.add(hl, ModFresh)
	case *ssa.MakeSlice:
		ms.add("$alloc", ModAny)
		ms.add(elemHeapName(x.Type().Underlying().(*types.Slice).Elem()), ModFresh)
	case *ssa.MakeClosure, *ssa.MakeChan:
		ms.add("$alloc", ModAny)
	case *ssa.Send:
		if ct, ok := x.Chan.Type().Underlying().(*types.Chan); ok {
			hv, hn := chanHeapNames(ct.Elem())
			ms.add(hv, ModAny)
			ms.add(hn, ModAny)
		}
	case ssa.CallInstruction:
		common := x.Common()
		if b, ok := common.Value.(*ssa.Builtin); ok {
			switch b.Name() {
			case "append":
				if sl, ok := common.Args[0].Type().Underlying().(*types.Slice); ok {
					ms.add("$alloc", ModAny)
					// default append model: the result never shares storage with its argument,
					// so only the freshly allocated array is written
					ms.add(elemHeapName(sl.Elem()), ModFresh)
				}
			case "copy":
				if sl, ok := common.Args[0].Type().Underlying().(*types.Slice); ok {
					ms.add(elemHeapName(sl.Elem()), kindOf(isFreshRoot(common.Args[0], inScope, map[ssa.Value]bool{})))
				}
			case "delete":
				if m, ok := common.Args[0].Type().Underlying().(*types.Map); ok {
					hp, _, hl := mapHeapNames(m)
					k := kindOf(isFreshRoot(common.Args[0], inScope, map[ssa.Value]bool{}))
					ms.add(hp, k)
					ms.add(hl, k)
				}
			case "clear":
				switch u := common.Args[0].Type().Underlying().(type) {
				case *types.Map:
					hp, hv, hl := mapHeapNames(u)
					ms.add(hp, ModAny)
					ms.add(hv, ModAny)
					ms.add(hl, ModAny)
				case *types.Slice:
					ms.add(elemHeapName(u.Elem()), ModAny)
				}
			}
			return ms
		}
		ms.union(ma.commonMods(common))
	}
	return ms
}

// commonMods: mod-set of a call, from the callee's contract, summary or type.
func (ma *modAnalysis) commonMods(common *ssa.CallCommon) ModSet {
	var ms ModSet
	ms.add("$alloc", ModAny)
	cs := ma.ctx.contracts
	declared := func(fc *FuncContract) {
		for _, m := range fc.Modifies {
			ms.add(ma.ctx.heapNameOfModifies(m), ModAny)
		}
	}
	if common.IsInvoke() {
		for _, k := range ifaceKey(common.Value.Type(), common.Method) {
			if fc := cs.Funcs[k]; fc != nil {
				declared(fc)
				ms.opaque = !fc.Pure
				return ms
			}
		}
		// CHA over loaded concrete types (plus implementations outside the loaded packages)
		ms.opaque = true
		it, _ := common.Value.Type().Underlying().(*types.Interface)
		for _, m := range ma.methods[common.Method.Name()] {
			rt := m.Signature.Recv().Type()
			if it == nil || types.Implements(rt, it) {
				ms.union(ma.calleeMods(m))
			}
		}
		return ms
	}
	if sc := common.StaticCallee(); sc != nil {
		cm := ma.calleeMods(sc)
		ms.union(cm)
		// function-typed and interface-typed arguments of body-less callees may be called back
		if len(sc.Blocks) == 0 {
			// (a read-only callee may still call a function value it is given — filepath.Walk —
			// but is taken not to call mutating methods of interface-typed arguments)
			ms.union(ma.callbackMods(sc, common.Args, !ma.readOnlyCallee(sc)))
		}
		// the callee calls some of its function-typed parameters: use the actual arguments
		for i := range ma.paramCalls[sc] {
			if i >= len(common.Args) {
				continue
			}
			if fns, ok := resolveFuncValue(common.Args[i], 0); ok {
				for _, f := range fns {
					ms.union(ma.calleeMods(f))
					if f.Parent() != nil {
						ms.union(ma.closureParamMods(f))
					}
				}
			} else {
				ms.opaque = true
				if sig, ok := common.Args[i].Type().Underlying().(*types.Signature); ok {
					for _, t := range ma.addrTaken[sigKey(sig)] {
						ms.union(ma.calleeMods(t))
					}
				}
			}
		}
		// a pointer / map / slice boxed into an interface argument (json.Unmarshal(b, &x), a helm
		// wrapper around it ...) can be written through by code that has no body here
		if cm.opaque && !ma.readOnlyCallee(sc) && isSortPkgFunc(sc) {
			// package sort writes only the elements of the slice it is given (directly, or through
			// the Swap method, which callbackMods has accounted for)
			if sc.Name() == "Slice" || sc.Name() == "SliceStable" {
				ms.add("G$GsortOrigin", ModAny)
			}
			for _, a := range common.Args {
				if mi, ok := a.(*ssa.MakeInterface); ok {
					if sl, ok := mi.X.Type().Underlying().(*types.Slice); ok {
						ms.add(elemHeapName(sl.Elem()), ModAny)
					}
				}
				if sl, ok := a.Type().Underlying().(*types.Slice); ok {
					ms.add(elemHeapName(sl.Elem()), ModAny)
				}
			}
		} else if cm.opaque && !ma.readOnlyCallee(sc) {
			for _, a := range common.Args {
				if mi, ok := a.(*ssa.MakeInterface); ok {
					switch mi.X.Type().Underlying().(type) {
					case *types.Pointer, *types.Map, *types.Slice:
						ma.typeReach(mi.X.Type(), 0, map[string]bool{}, &ms)
					}
				}
			}
		}
		return ms
	}
	// a call of one of the caller's own function-typed parameters is resolved at the caller's call sites
	if p, ok := common.Value.(*ssa.Parameter); ok && p.Parent() != nil {
		for i, fp := range p.Parent().Params {
			if fp == p {
				if ma.paramCalls[p.Parent()] == nil {
					ma.paramCalls[p.Parent()] = map[int]bool{}
				}
				ma.paramCalls[p.Parent()][i] = true
				return ms
			}
		}
	}
	// dynamic call through a function value
	ms.opaque = true
	for _, t := range ma.addrTaken[sigKey(common.Signature())] {
		ms.union(ma.calleeMods(t))
	}
	return ms
}

func isSortPkgFunc(fn *ssa.Function) bool {
	if fn.Pkg != nil {
		return fn.Pkg.Pkg.Path() == "sort"
	}
	if o := fn.Object(); o != nil && o.Pkg() != nil {
		return o.Pkg().Path() == "sort"
	}
	return false
}

// resolveFuncValue finds the functions a function-typed value can denote when that is
// syntactically evident: a closure, a function, a conversion of one, a phi of such, or the
// result of a static call to a function all of whose returns are such values.
func resolveFuncValue(v ssa.Value, depth int) ([]*ssa.Function, bool) {
	if depth > 3 {
		return nil, false
	}
	switch a := v.(type) {
	case *ssa.MakeClosure:
		if f, ok := a.Fn.(*ssa.Function); ok {
			return []*ssa.Function{f}, true
		}
	case *ssa.Function:
		return []*ssa.Function{a}, true
	case *ssa.ChangeType:
		return resolveFuncValue(a.X, depth)
	case *ssa.Phi:
		var all []*ssa.Function
		for _, e := range a.Edges {
			if e == v {
				continue
			}
			fs, ok := resolveFuncValue(e, depth+1)
			if !ok {
				return nil, false
			}
			all = append(all, fs...)
		}
		return all, true
	case *ssa.Call:
		sc := a.Call.StaticCallee()
		if sc == nil || len(sc.Blocks) == 0 || sc.Signature.Results().Len() != 1 {
			return nil, false
		}
		var all []*ssa.Function
		for _, b := range sc.Blocks {
			for _, in := range b.Instrs {
				if r, ok := in.(*ssa.Return); ok {
					fs, ok := resolveFuncValue(r.Results[0], depth+1)
					if !ok {
						return nil, false
					}
					all = append(all, fs...)
				}
			}
		}
		return all, len(all) > 0
	}
	return nil, false
}

func (ma *modAnalysis) calleeMods(fn *ssa.Function) ModSet {
	var ms ModSet
	key := funcKey(fn)
	fc := ma.ctx.contracts.Funcs[key]
	if fc != nil && fc.Pure {
		return ms
	}
	if len(fn.Blocks) > 0 {
		if s := ma.summary[fn]; s != nil {
			ms.union(*s)
		}
		if fc != nil && fc.HasMod {
			// declared ghost frame replaces the computed ghost effects
			for k := range ms.m {
				if strings.HasPrefix(k, "G$") {
					delete(ms.m, k)
				}
			}
			for _, m := range fc.Modifies {
				ms.add(ma.ctx.heapNameOfModifies(m), ModAny)
			}
		}
		if fc != nil {
			// `records G = e`: a call of this function is logged in the ghost variable G
			for _, r := range fc.Records {
				ms.add("G$"+r, ModAny)
			}
		}
		return ms
	}
	// no body
	if fc != nil {
		for _, m := range fc.Modifies {
			ms.add(ma.ctx.heapNameOfModifies(m), ModAny)
		}
		ms.opaque = true
		return ms
	}
	if o := fn.Origin(); o != nil && o != fn && len(o.Blocks) > 0 {
		if s := ma.summary[o]; s != nil {
			ms.union(*s)
		}
		return ms
	}
	pkg := ""
	if fn.Pkg != nil {
		pkg = fn.Pkg.Pkg.Path()
	} else if fn.Object() != nil && fn.Object().Pkg() != nil {
		pkg = fn.Object().Pkg().Path()
	}
	if ro, listed := readOnlyPkgs[pkg]; listed && ro {
		ma.externUsed["read-only: "+pkg] = true
		ms.opaque = true
		return ms
	}
	if readOnlyFuncs[pkg+"."+fn.Name()] {
		ma.externUsed["read-only: "+pkg+"."+fn.Name()] = true
		ms.opaque = true
		return ms
	}
	ma.externUsed["type-reach: "+fn.String()] = true
	ms.opaque = true
	sig := fn.Signature
	k := sig.String()
	if c, ok := ma.reachCache[k]; ok {
		ms.union(c)
		return ms
	}
	var r ModSet
	seen := map[string]bool{}
	if sig.Recv() != nil {
		ma.typeReach(sig.Recv().Type(), 0, seen, &r)
	}
	for i := 0; i < sig.Params().Len(); i++ {
		ma.typeReach(sig.Params().At(i).Type(), 0, seen, &r)
	}
	ma.reachCache[k] = r
	ms.union(r)
	return ms
}

// closureParamMods: nothing further for now (closures that call their own parameters are rare)
func (ma *modAnalysis) closureParamMods(f *ssa.Function) ModSet { return ModSet{} }

func (ma *modAnalysis) readOnlyCallee(fn *ssa.Function) bool {
	if fc := ma.ctx.contracts.Funcs[funcKey(fn)]; fc != nil && fc.Pure {
		return true
	}
	if len(fn.Blocks) > 0 {
		return false
	}
	pkg := ""
	if fn.Pkg != nil {
		pkg = fn.Pkg.Pkg.Path()
	} else if fn.Object() != nil && fn.Object().Pkg() != nil {
		pkg = fn.Object().Pkg().Path()
	}
	ro, listed := readOnlyPkgs[pkg]
	return (listed && ro) || readOnlyFuncs[pkg+"."+fn.Name()]
}

func (ma *modAnalysis) typeReach(t types.Type, depth int, seen map[string]bool, out *ModSet) {
	if depth > 3 {
		return
	}
	_ = 0
	switch u := t.Underlying().(type) {
	case *types.Pointer:
		key := "P" + types.TypeString(u.Elem(), nil)
		if seen[key] {
			return
		}
		seen[key] = true
		for _, h := range ma.heapsOfType(u.Elem()) {
			out.add(h, ModAny)
		}
		if st, ok := u.Elem().Underlying().(*types.Struct); ok {
			for i := 0; i < st.NumFields(); i++ {
				ma.typeReach(st.Field(i).Type(), depth+1, seen, out)
			}
		}
	case *types.Slice:
		key := "S" + types.TypeString(u.Elem(), nil)
		if seen[key] {
			return
		}
		seen[key] = true
		out.add(elemHeapName(u.Elem()), ModAny)
		ma.typeReach(u.Elem(), depth+1, seen, out)
	case *types.Map:
		key := "M" + types.TypeString(u, nil)
		if seen[key] {
			return
		}
		seen[key] = true
		hp, hv, hl := mapHeapNames(u)
		out.add(hp, ModAny)
		out.add(hv, ModAny)
		out.add(hl, ModAny)
		ma.typeReach(u.Elem(), depth+1, seen, out)
	case *types.Struct:
		for i := 0; i < u.NumFields(); i++ {
			ma.typeReach(u.Field(i).Type(), depth+1, seen, out)
		}
	}
}

// callbackMods: body-less callee receiving function values or interface values
// whose methods are implemented in loaded packages (sort.Sort(x), filepath.Walk(fn) ...).
func (ma *modAnalysis) callbackMods(sc *ssa.Function, args []ssa.Value, ifaceMethods bool) ModSet {
	var ms ModSet
	for _, a := range args {
		switch u := a.Type().Underlying().(type) {
		case *types.Signature:
			if mc, ok := a.(*ssa.MakeClosure); ok {
				if f, ok := mc.Fn.(*ssa.Function); ok {
					ms.union(ma.calleeMods(f))
					continue
				}
			}
			if f, ok := a.(*ssa.Function); ok {
				ms.union(ma.calleeMods(f))
				continue
			}
			for _, t := range ma.addrTaken[sigKey(u)] {
				ms.union(ma.calleeMods(t))
			}
		case *types.Interface:
			if u.NumMethods() == 0 || !ifaceMethods {
				continue
			}
			if mi, ok := a.(*ssa.MakeInterface); ok {
				mset := ma.ctx.prog.MethodSets.MethodSet(mi.X.Type())
				for i := 0; i < u.NumMethods(); i++ {
					if sel := mset.Lookup(u.Method(i).Pkg(), u.Method(i).Name()); sel != nil {
						if f := ma.ctx.prog.MethodValue(sel); f != nil {
							ms.union(ma.calleeMods(f))
						}
					}
				}
				continue
			}
			for i := 0; i < u.NumMethods(); i++ {
				for _, m := range ma.methods[u.Method(i).Name()] {
					if types.Implements(m.Signature.Recv().Type(), u) {
						ms.union(ma.calleeMods(m))
					}
				}
			}
		}
	}
	return ms
}

// callMods is the entry point used by the encoder.
func (c *Ctx) callMods(e *Enc, common *ssa.CallCommon, ct *callTarget) ModSet {
	ms := c.mods.commonMods(common)
	if ct != nil && ct.contract != nil && ct.contract.Assumed && !ct.contract.HasMod && ct.static == nil {
		// interface method with an assumed contract and no modifies clause: no tracked effect
	}
	return ms
}
