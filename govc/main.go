package main

import (
	"flag"
	"fmt"
	"os"
	"sort"
	"strings"
)

func usage() {
	fmt.Fprintln(os.Stderr, `govc — verification-condition generator for contracts on helm/helm
  govc run [-tier quick|thorough] [-v] [-keep dir] <substring-of-function-key>...   verify matching functions under contract (development)
  govc check <Cnn> <quick|thorough>       decide one property (interface used by /verif/check)
  govc baseline                           regenerate baseline-obligations.json from the current tree
  govc list                               list functions under contract and their properties
  govc ssa <substring>                    dump the SSA of matching functions`)
	os.Exit(2)
}

func main() {
	if len(os.Args) < 2 {
		usage()
	}
	repo := envOr("GOVC_REPO", "/repo")
	verif := envOr("GOVC_VERIF", "/verif")
	switch os.Args[1] {
	case "run":
		fs := flag.NewFlagSet("run", flag.ExitOnError)
		tier := fs.String("tier", "quick", "")
		verbose := fs.Bool("v", false, "")
		keep := fs.String("keep", "", "")
		fs.Parse(os.Args[2:])
		os.Exit(cmdRun(repo, verif, fs.Args(), *tier, *verbose, *keep))
	case "check":
		if len(os.Args) < 4 {
			usage()
		}
		os.Exit(cmdCheck(repo, verif, os.Args[2], os.Args[3]))
	case "baseline":
		os.Exit(cmdBaseline(repo, verif))
	case "list":
		os.Exit(cmdList(repo, verif))
	case "ssa":
		os.Exit(cmdSSA(repo, verif, os.Args[2:]))
	case "mods":
		c, err := LoadCtx(repo, verif, nil)
		if err != nil {
			fmt.Fprintln(os.Stderr, err)
			os.Exit(2)
		}
		for k, fn := range c.funcByKey {
			for _, p := range os.Args[2:] {
				if strings.Contains(k, p) {
					ms := c.mods.calleeMods(fn)
					var names []string
					for n, kind := range ms.m {
						names = append(names, fmt.Sprintf("%s:%d", n, kind))
					}
					sort.Strings(names)
					fmt.Println(k, names)
				}
			}
		}
		os.Exit(0)
	case "selftest":
		os.Exit(cmdSelftest(repo, verif, os.Args[2:]))
	default:
		usage()
	}
}

func envOr(k, d string) string {
	if v := os.Getenv(k); v != "" {
		return v
	}
	return d
}

func matchKeys(c *Ctx, pats []string) []string {
	var keys []string
	for _, k := range c.contracts.Order {
		fc := c.contracts.Funcs[k]
		if fc.Assumed || c.funcByKey[k] == nil {
			continue
		}
		if fc.Trusted {
			continue
		}
		if len(pats) == 0 {
			keys = append(keys, k)
			continue
		}
		for _, p := range pats {
			if strings.Contains(k, p) {
				keys = append(keys, k)
				break
			}
		}
	}
	return keys
}

func cmdRun(repo, verif string, pats []string, tier string, verbose bool, keep string) int {
	c, err := LoadCtx(repo, verif, nil)
	if err != nil {
		fmt.Fprintln(os.Stderr, err)
		return 2
	}
	dir := keep
	if dir == "" {
		d, err := os.MkdirTemp("", "govc")
		if err != nil {
			fmt.Fprintln(os.Stderr, err)
			return 2
		}
		defer os.RemoveAll(d)
		dir = d
	} else {
		os.MkdirAll(dir, 0o755)
	}
	var obs []*Oblig
	var encs []*Enc
	for _, k := range matchKeys(c, pats) {
		e, err := c.EncodeFunc(k)
		if err != nil {
			fmt.Fprintln(os.Stderr, "ERROR", err)
			return 2
		}
		encs = append(encs, e)
		obs = append(obs, e.obligs...)
	}
	if len(pats) == 0 || containsStr(pats, "lemma") {
		le, err := c.EncodeLemmas()
		if err != nil {
			fmt.Fprintln(os.Stderr, "ERROR", err)
			return 2
		}
		obs = append(obs, le.obligs...)
	}
	SolveAll(obs, dir, tier, 0, 16)
	bad := 0
	for _, e := range encs {
		fmt.Printf("== %s (%d obligations)\n", e.key, len(e.obligs))
		for _, w := range e.warnings {
			fmt.Printf("   warning: %s\n", w)
		}
		if verbose {
			var u []string
			for k := range e.unknown {
				u = append(u, k)
			}
			sort.Strings(u)
			for _, k := range u {
				fmt.Printf("   unknown callee: %s\n", k)
			}
		}
	}
	for _, o := range obs {
		mark := "ok "
		if o.Status != "discharged" {
			mark = "!! "
			bad++
		}
		if verbose || o.Status != "discharged" {
			fmt.Printf("%s%-10s %-9s %5dms %s\n", mark, o.Status, o.Solver, o.Ms, o.Name)
			if o.Status != "discharged" {
				fmt.Printf("      %s\n      %s\n", o.Src, strings.ReplaceAll(o.Output, "\n", "\n      "))
				if o.Model != "" && verbose {
					fmt.Printf("      model: %s\n", firstLines(o.Model, 60))
				}
			}
		}
	}
	fmt.Printf("obligations=%d failed=%d\n", len(obs), bad)
	if bad > 0 {
		return 1
	}
	return 0
}

func containsStr(l []string, s string) bool {
	for _, x := range l {
		if x == s {
			return true
		}
	}
	return false
}

func cmdList(repo, verif string) int {
	c, err := LoadCtx(repo, verif, nil)
	if err != nil {
		fmt.Fprintln(os.Stderr, err)
		return 2
	}
	for _, k := range c.contracts.Order {
		fc := c.contracts.Funcs[k]
		kind := "verified"
		if fc.Trusted {
			kind = "trusted"
		} else if fc.Assumed {
			kind = "assumed"
		}
		fmt.Printf("%-8s %-20s %s\n", kind, strings.Join(fc.Props, ","), k)
	}
	return 0
}

func cmdSSA(repo, verif string, pats []string) int {
	c, err := LoadCtx(repo, verif, nil)
	if err != nil {
		fmt.Fprintln(os.Stderr, err)
		return 2
	}
	var keys []string
	for k := range c.funcByKey {
		for _, p := range pats {
			if strings.Contains(k, p) {
				keys = append(keys, k)
			}
		}
	}
	sort.Strings(keys)
	for _, k := range keys {
		fmt.Println("### key:", k)
		c.funcByKey[k].WriteTo(os.Stdout)
	}
	return 0
}
