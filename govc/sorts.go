package main

// Mapping of Go types to SMT sorts and of memory locations to typed heaps.
//
//   pointers, maps, chans, funcs, interfaces  -> Int   (nil = 0)
//   integers                                  -> Int   (mathematical; range facts on inputs)
//   bool                                      -> Bool
//   string                                    -> String (SMT strings; len counts characters)
//   slices                                    -> Slice datatype (arr, off, len, cap)
//   struct values                             -> one datatype per struct type
//   float/complex                             -> Int (opaque)
//
// Heaps (state variables):
//   F$T$f : Array Int S(f)          field f of every *T
//   C$T   : Array Int S(T)          cells of pointers to non-struct T (and address-taken locals)
//   E$T   : Array Int (Array Int S(T))   backing arrays of []T / *[N]T
//   MP$K$V: Array Int (Array S(K) Bool)  map presence
//   MV$K$V: Array Int (Array S(K) S(V))  map values
//   ML$K$V: Array Int Int                map sizes
//   $alloc: Int                          allocation counter
//   G$name: ghost variable

import (
	"fmt"
	"go/types"
	"sort"
	"strings"
)

type Sorts struct {
	structDecl  map[string]string // datatype name -> declaration
	structOrder []string
	structInfo  map[string]*types.Struct
	typeTags    map[string]int // type string -> tag for interface boxing
	tagOrder    []string
	boxFuncs    map[string]string // sort-specific box/unbox function names -> decl
	boxOrder    []string
}

func NewSorts() *Sorts {
	return &Sorts{structDecl: map[string]string{}, structInfo: map[string]*types.Struct{}, typeTags: map[string]int{}, boxFuncs: map[string]string{}}
}

func sanitize(s string) string {
	var b strings.Builder
	for _, r := range s {
		switch {
		case r >= 'a' && r <= 'z', r >= 'A' && r <= 'Z', r >= '0' && r <= '9', r == '_', r == '$', r == '.':
			b.WriteRune(r)
		case r == '*':
			b.WriteString("P_")
		case r == '[':
			b.WriteString("L_")
		case r == ']':
			b.WriteString("_R")
		case r == '/':
			b.WriteString("_")
		default:
			b.WriteString("_")
		}
	}
	return b.String()
}

// shortType gives a compact, stable name for a type (package name, not path).
func shortType(t types.Type) string {
	return types.TypeString(t, func(p *types.Package) string {
		path := p.Path()
		if strings.HasPrefix(path, "helm.sh/helm/v4/") {
			return strings.TrimPrefix(path, "helm.sh/helm/v4/")
		}
		return path
	})
}

func typeKey(t types.Type) string { return sanitize(shortType(t)) }

// SortOf returns the SMT sort for a Go type.
func (s *Sorts) SortOf(t types.Type) string {
	switch u := t.Underlying().(type) {
	case *types.Basic:
		switch {
		case u.Info()&types.IsBoolean != 0:
			return "Bool"
		case u.Info()&types.IsString != 0:
			return "String"
		default:
			return "Int"
		}
	case *types.Slice:
		return "Slice"
	case *types.Struct:
		return s.structSort(t, u)
	case *types.Tuple:
		return "Int"
	default:
		return "Int"
	}
}

func (s *Sorts) structSort(t types.Type, u *types.Struct) string {
	name := "S$" + typeKey(t)
	if _, ok := s.structDecl[name]; ok {
		return name
	}
	s.structDecl[name] = "" // break recursion (recursive struct values are impossible in Go)
	var fields []string
	for i := 0; i < u.NumFields(); i++ {
		f := u.Field(i)
		fields = append(fields, fmt.Sprintf("(%s %s)", s.structSel(name, f.Name(), i), s.SortOf(f.Type())))
	}
	if len(fields) == 0 {
		s.structDecl[name] = fmt.Sprintf("(declare-datatypes ((%s 0)) (((mk$%s))))", q(name), name)
	} else {
		s.structDecl[name] = fmt.Sprintf("(declare-datatypes ((%s 0)) (((%s %s))))", q(name), q("mk$"+name), strings.Join(fields, " "))
	}
	s.structOrder = append(s.structOrder, name)
	s.structInfo[name] = u
	return name
}

func (s *Sorts) structSel(sortName, field string, idx int) string {
	return q(fmt.Sprintf("%s$%d$%s", sortName, idx, field))
}

// q quotes an SMT symbol.
func q(sym string) string {
	if strings.HasPrefix(sym, "|") {
		return sym
	}
	for _, r := range sym {
		if !(r >= 'a' && r <= 'z' || r >= 'A' && r <= 'Z' || r >= '0' && r <= '9' || r == '_' || r == '.' || r == '$' || r == '!' || r == '@' || r == '#') {
			return "|" + sym + "|"
		}
	}
	if sym != "" && sym[0] >= '0' && sym[0] <= '9' {
		return "|" + sym + "|"
	}
	return sym
}

// ZeroOf returns the SMT term of the zero value.
func (s *Sorts) ZeroOf(t types.Type) string {
	switch u := t.Underlying().(type) {
	case *types.Basic:
		switch {
		case u.Info()&types.IsBoolean != 0:
			return "false"
		case u.Info()&types.IsString != 0:
			return "\"\""
		default:
			return "0"
		}
	case *types.Slice:
		return "nilslice"
	case *types.Struct:
		name := s.structSort(t, u)
		if u.NumFields() == 0 {
			return q("mk$" + name)
		}
		var parts []string
		for i := 0; i < u.NumFields(); i++ {
			parts = append(parts, s.ZeroOf(u.Field(i).Type()))
		}
		return "(" + q("mk$"+name) + " " + strings.Join(parts, " ") + ")"
	default:
		return "0"
	}
}

// TagOf returns the boxing tag of a concrete type.
func (s *Sorts) TagOf(t types.Type) int {
	k := shortType(t)
	if v, ok := s.typeTags[k]; ok {
		return v
	}
	// deterministic tag: independent of which other functions were encoded before
	v := int(hashString(k)%2000000000) + 1
	for _, used := range s.typeTags {
		if used == v {
			v++
		}
	}
	s.typeTags[k] = v
	s.tagOrder = append(s.tagOrder, k)
	return v
}

// Box/unbox functions are per SMT sort: box$Sort : Sort Int -> Int (value, tag)
func (s *Sorts) BoxFn(sortName string) string {
	n := "box$" + sortName
	if _, ok := s.boxFuncs[n]; !ok {
		s.boxFuncs[n] = fmt.Sprintf("(declare-fun %s (%s Int) Int)\n(declare-fun %s (Int) %s)", q(n), q(sortName), q("unbox$"+sortName), q(sortName))
		s.boxOrder = append(s.boxOrder, n)
	}
	return q(n)
}
func (s *Sorts) UnboxFn(sortName string) string {
	s.BoxFn(sortName)
	return q("unbox$" + sortName)
}

// Prelude emits the fixed declarations plus the datatypes discovered so far.
func (s *Sorts) Prelude() string {
	var b strings.Builder
	b.WriteString("(declare-datatypes ((Slice 0)) (((mkslice (s.arr Int) (s.off Int) (s.len Int) (s.cap Int)))))\n")
	b.WriteString("(define-fun nilslice () Slice (mkslice 0 0 0 0))\n")
	b.WriteString("(declare-fun tagOf (Int) Int)\n")
	for _, n := range s.structOrder {
		b.WriteString(s.structDecl[n])
		b.WriteString("\n")
	}
	for _, n := range s.boxOrder {
		b.WriteString(s.boxFuncs[n])
		b.WriteString("\n")
	}
	return b.String()
}

// ---------------------------------------------------------------- heaps

type HeapKind int

const (
	HField HeapKind = iota
	HCell
	HElem
	HMapP
	HMapV
	HMapL
	HAlloc
	HGhost
	HChan
)

type Heap struct {
	Name string
	Sort string
	Kind HeapKind
	Elem int // 0: no reference content, 1: references (pointer/map/chan), 2: slices
}

func refKind(t types.Type) int {
	switch t.Underlying().(type) {
	case *types.Pointer, *types.Map, *types.Chan:
		return 1
	case *types.Slice:
		return 2
	}
	return 0
}

func fieldHeapName(structT types.Type, field *types.Var) string {
	return "F$" + typeKey(structT) + "$" + field.Name()
}
func cellHeapName(t types.Type) string { return "C$" + typeKey(t) }
func elemHeapName(t types.Type) string { return "E$" + typeKey(t) }
func mapHeapNames(m *types.Map) (p, v, l string) {
	k := typeKey(m.Key()) + "$" + typeKey(m.Elem())
	return "MP$" + k, "MV$" + k, "ML$" + k
}

func (s *Sorts) FieldHeap(structT types.Type, field *types.Var) Heap {
	return Heap{Name: fieldHeapName(structT, field), Sort: "(Array Int " + q(s.SortOf(field.Type())) + ")", Kind: HField, Elem: refKind(field.Type())}
}
func (s *Sorts) CellHeap(t types.Type) Heap {
	return Heap{Name: cellHeapName(t), Sort: "(Array Int " + q(s.SortOf(t)) + ")", Kind: HCell, Elem: refKind(t)}
}
func (s *Sorts) ElemHeap(t types.Type) Heap {
	return Heap{Name: elemHeapName(t), Sort: "(Array Int (Array Int " + q(s.SortOf(t)) + "))", Kind: HElem, Elem: refKind(t)}
}
func (s *Sorts) MapHeaps(m *types.Map) (p, v, l Heap) {
	k := typeKey(m.Key()) + "$" + typeKey(m.Elem())
	p = Heap{Name: "MP$" + k, Sort: "(Array Int (Array " + q(s.SortOf(m.Key())) + " Bool))", Kind: HMapP}
	v = Heap{Name: "MV$" + k, Sort: "(Array Int (Array " + q(s.SortOf(m.Key())) + " " + q(s.SortOf(m.Elem())) + "))", Kind: HMapV, Elem: refKind(m.Elem())}
	l = Heap{Name: "ML$" + k, Sort: "(Array Int Int)", Kind: HMapL}
	return
}

// ChanHeaps: the last value sent on a channel and the number of sends, per element type.
func chanHeapNames(elem types.Type) (v, n string) {
	return "CHV$" + typeKey(elem), "CHN$" + typeKey(elem)
}
func (s *Sorts) ChanHeaps(elem types.Type) (v, n Heap) {
	vn, nn := chanHeapNames(elem)
	v = Heap{Name: vn, Sort: "(Array Int " + q(s.SortOf(elem)) + ")", Kind: HChan, Elem: refKind(elem)}
	n = Heap{Name: nn, Sort: "(Array Int Int)", Kind: HChan}
	return
}

var allocHeap = Heap{Name: "$alloc", Sort: "Int", Kind: HAlloc}

// HeapSet is a set of heap names.
type HeapSet map[string]bool

func (h HeapSet) Sorted() []string {
	var r []string
	for k := range h {
		r = append(r, k)
	}
	sort.Strings(r)
	return r
}
