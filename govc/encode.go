package main

// SSA -> verification conditions.
//
// A function is encoded in passive form: loops are cut at their heads (invariant
// asserted on entry and at every back edge, state written in the loop havocked
// at the head, invariant assumed), the remaining DAG is walked in topological
// order, every SSA value becomes an SMT definition, every typed heap has one
// version per program point (merged with ite at joins), and each obligation is
// an SMT query made of the items emitted before it, its path guard and the
// negated goal.

import (
	"fmt"
	"go/ast"
	"go/constant"
	"go/token"
	"go/types"
	"sort"
	"strings"

	"golang.org/x/tools/go/ssa"
)

type Oblig struct {
	Name   string
	Fn     string
	Kind   string // post | inv-entry | inv-back | pre | safety | lemma | vacuity
	Pos    int    // number of items that precede it
	Guard  string
	Goal   string
	Src    string
	File   string
	Line   int
	Props  []string
	enc    *Enc
	Expect string // "unsat" (default) or "sat" for vacuity/reachability checks
	// results
	Status  string // discharged | refuted | undecided | error
	Solver  string
	Ms      int64
	Output  string
	Model   string
	Script  string
	Confirm []string // solvers that agreed (thorough)
}

type Place struct {
	kind int // 0 struct-at-ref, 1 field, 2 cell, 3 elem
	heap Heap
	ref  string
	idx  string
	path []pathStep
	T    types.Type
}

type pathStep struct {
	sortName string
	st       *types.Struct
	idx      int
}

type edge struct {
	from *ssa.BasicBlock
	cond string
	st   *State
}

type loopInfo struct {
	head    *ssa.BasicBlock
	body    map[*ssa.BasicBlock]bool
	ordinal int
	mod     map[string]bool // heap names possibly modified (computed lazily against relevant set)
	rangeV  *ssa.Range
}

type Enc struct {
	ctx      *Ctx
	fn       *ssa.Function
	fc       *FuncContract
	key      string
	collect  bool
	relevant map[string]Heap
	touched  map[string]Heap

	decls    []string
	declSeen map[string]bool
	items    []string
	obligs   []*Oblig
	vals     map[ssa.Value]string
	tuples   map[ssa.Value][]string
	places   map[ssa.Value]*Place
	en       map[*ssa.BasicBlock]string
	out      map[*ssa.BasicBlock]*State
	edges    map[*ssa.BasicBlock][]edge
	loops    map[*ssa.BasicBlock]*loopInfo
	entry    *State
	nfresh   int
	warnings []string
	escaped  map[string]Heap
	counts   map[string]int
	params   map[string]TV
	callOrd  map[string]int
	retOrd   int
	assumed  map[string]bool // assumed contracts / unknown callees used
	unknown  map[string]bool
	curBlock *ssa.BasicBlock
	deferred []*ssa.Defer
	usesGo   bool

	lastPreAlloc   string
	usedGhost      map[string]bool
	axioms         []string
	axiomNames     []string
	preludeText    string
	constErrs      []string
	tables         []constTable
	assumedGlobals []string
	nquant         int
	localAllocs    []*localAlloc
	sliceRoots     map[ssa.Value]sliceRoot
	boundFactDone  map[string]bool
	patAliases     map[string]string
	// set while the contract of a closure made in this function is evaluated at its call site
	curClosureResolve func(string, *State) (TV, bool)
	// non-nil while the body of a closure is encoded in place of a call to it
	inl      *inlineFrame
	ninlined int
	// assert clauses: instruction cut-off for name resolution, which ones fired
	resolveCut    int
	assertDone    map[string]bool
	assertSeen    []int
	ensuresAtSeen map[int]bool
}

// sliceRoot: v is root[shift:...] (a chain of reslices); cells of v are addressed through root
type sliceRoot struct {
	root  string // SMT term of the root slice
	shift string // index of v[0] in root
}

type localAlloc struct {
	v       ssa.Value
	block   *ssa.BasicBlock
	heaps   map[string]bool
	isSlice bool
}

func (e *Enc) touch(h Heap) {
	if e.touched != nil {
		e.touched[h.Name] = h
	}
}

func (e *Enc) initConst(h Heap) string {
	name := h.Name + "@0"
	if !e.declSeen[name] {
		e.declSeen[name] = true
		e.decls = append(e.decls, fmt.Sprintf("(declare-const %s %s)", q(name), h.Sort))
	}
	return q(name)
}

func (e *Enc) freshName(prefix string) string {
	e.nfresh++
	return fmt.Sprintf("%s!%d", prefix, e.nfresh)
}

func (e *Enc) emit(s string) { e.items = append(e.items, s) }

func (e *Enc) declare(name, sortName string) string {
	if e.inl != nil {
		name = e.inl.prefix + name
	}
	e.emit(fmt.Sprintf("(declare-const %s %s)", q(name), qs(sortName)))
	return q(name)
}

func (e *Enc) define(name, sortName, term string) string {
	if e.inl != nil {
		name = e.inl.prefix + name
	}
	if strings.Contains(term, "(ite ") {
		// solvers expand define-fun as a macro, and `ite` is rejected inside quantifier patterns:
		// a conditional term gets a declared name and a defining equation instead
		e.emit(fmt.Sprintf("(declare-const %s %s)", q(name), qs(sortName)))
		e.emit(fmt.Sprintf("(assert (= %s %s))", q(name), term))
		return q(name)
	}
	e.emit(fmt.Sprintf("(define-fun %s () %s %s)", q(name), qs(sortName), term))
	return q(name)
}

// fact asserts a formula that holds whenever the current block executes.
func (e *Enc) fact(f string) {
	g := "true"
	if e.curBlock != nil {
		g = e.en[e.curBlock]
	}
	if g == "true" {
		e.emit("(assert " + f + ")")
	} else {
		e.emit("(assert (=> " + g + " " + f + "))")
	}
}

func (e *Enc) warn(format string, a ...interface{}) {
	w := fmt.Sprintf(format, a...)
	for _, x := range e.warnings {
		if x == w {
			return
		}
	}
	e.warnings = append(e.warnings, w)
}

func (e *Enc) oblig(kind, name, goal, src string, cl *Clause) *Oblig {
	guard := "true"
	if e.curBlock != nil {
		guard = e.en[e.curBlock]
	}
	o := &Oblig{Name: e.key + "/" + name, Fn: e.key, Kind: kind, Pos: len(e.items), Guard: guard, Goal: goal, Src: src, enc: e}
	if cl != nil {
		o.File, o.Line = cl.File, cl.Line
		for t := range cl.Tags {
			if !strings.HasPrefix(t, "pkg:") {
				o.Props = append(o.Props, t)
			}
		}
	}
	if len(o.Props) == 0 && e.fc != nil {
		o.Props = append(o.Props, e.fc.Props...)
	}
	sort.Strings(o.Props)
	e.obligs = append(e.obligs, o)
	return o
}

func (e *Enc) obligGuarded(kind, name, guard, goal, src string, cl *Clause) *Oblig {
	o := e.oblig(kind, name, goal, src, cl)
	o.Guard = guard
	return o
}

// obligSplit creates one obligation per incoming edge of the current block when the block is a
// join (the disjunction of the parts is the original obligation): smaller queries, and the failing
// path is named.
func (e *Enc) obligSplit(kind, name, guard, goal, src string, cl *Clause) {
	b := e.curBlock
	if b == nil || len(e.edges[b]) < 2 || e.loops[b] != nil {
		e.obligGuarded(kind, name, guard, goal, src, cl)
		return
	}
	for _, ed := range e.edges[b] {
		g := ed.cond
		if guard != e.en[b] && guard != "true" {
			g = "(and " + ed.cond + " " + guard + ")"
		}
		e.obligGuarded(kind, fmt.Sprintf("%s~from-block%d", name, ed.from.Index), g, goal, src+fmt.Sprintf("   [path through block %d]", ed.from.Index), cl)
	}
}

func (e *Enc) count(k string) int {
	e.counts[k]++
	return e.counts[k]
}

// ---------------------------------------------------------------- values

func (e *Enc) sorts() *Sorts { return e.ctx.sorts }

func (e *Enc) term(v ssa.Value) string {
	if t, ok := e.vals[v]; ok {
		return t
	}
	switch v := v.(type) {
	case *ssa.Const:
		return e.constTerm(v)
	case *ssa.Global:
		if vr, ok := v.Object().(*types.Var); ok {
			return e.ctx.globalRef(vr)
		}
		return e.ctx.globalRefByName(v.String())
	case *ssa.Function:
		return e.ctx.funcRef(v.String())
	case *ssa.Builtin:
		return "0"
	}
	if p, ok := e.places[v]; ok {
		// interior pointer used as a first-class value
		e.warn("interior pointer %s (%s) escapes; its heap %s is havocked at every later call", v.Name(), v.Type(), p.heap.Name)
		e.escaped[p.heap.Name] = p.heap
		t := e.declare(e.freshName("esc$"+v.Name()), "Int")
		e.vals[v] = t
		return t
	}
	// value not yet defined (e.g. from an unreachable block): havoc
	t := e.declare(e.freshName("undef$"+v.Name()), e.sorts().SortOf(v.Type()))
	e.vals[v] = t
	return t
}

func (e *Enc) constTerm(c *ssa.Const) string {
	s := e.sorts()
	if c.Value == nil {
		return s.ZeroOf(c.Type())
	}
	switch c.Value.Kind() {
	case constant.Bool:
		return fmt.Sprint(constant.BoolVal(c.Value))
	case constant.String:
		return smtString(constant.StringVal(c.Value))
	case constant.Int:
		if s.SortOf(c.Type()) != "Int" {
			return s.ZeroOf(c.Type())
		}
		return smtInt(c.Value.ExactString())
	default:
		// float / complex constants: opaque but functional
		return e.ctx.opaqueConst(c.Value.ExactString())
	}
}

func (e *Enc) setVal(v ssa.Value, sortName, term string) {
	name := "v$" + v.Name()
	e.vals[v] = e.define(name, sortName, term)
}

func (e *Enc) havocVal(v ssa.Value) string {
	name := "v$" + v.Name()
	t := e.declare(name, e.sorts().SortOf(v.Type()))
	e.vals[v] = t
	e.typeFacts(t, v.Type(), e.cur())
	return t
}

func (e *Enc) cur() *State { return e.out[e.curBlock] }

// cellOf returns the backing array and the cell index of v[i], expressed through the root
// of a chain of reslices: at(off(root), shift+i). Keeping `at` applied to the root offset makes
// quantified facts about root[j] fire for cells reached through b[lo:][i].
func (e *Enc) cellOf(v ssa.Value, idx string) (arr, cell string) {
	if r, ok := e.sliceRoots[v]; ok {
		return "(s.arr " + r.root + ")", "(at (s.off " + r.root + ") (+ " + r.shift + " " + idx + "))"
	}
	x := e.term(v)
	return "(s.arr " + x + ")", "(at (s.off " + x + ") " + idx + ")"
}

// constGlobal returns the symbol of a package-level variable that is never written
// after package initialisation (errors created by errors.New, lookup tables ...).
func (e *Enc) constGlobal(name string, t types.Type) (string, bool) {
	if e.ctx.mutableGlobals[name] {
		return "", false
	}
	sym := q("glob$" + shortPath(name))
	if !e.declSeen[sym] {
		e.declSeen[sym] = true
		so := e.sorts().SortOf(t)
		e.decls = append(e.decls, fmt.Sprintf("(declare-const %s %s)", sym, qs(so)))
		if isErrorType(t) {
			// sentinel errors: non-nil, pairwise distinct
			e.decls = append(e.decls, fmt.Sprintf("(assert (not (= %s 0)))", sym))
			for _, other := range e.constErrs {
				e.decls = append(e.decls, fmt.Sprintf("(assert (not (= %s %s)))", sym, other))
			}
			e.constErrs = append(e.constErrs, sym)
		}
		if !isErrorType(t) && so == "Int" && e.ctx.initNonNil[name] {
			switch t.Underlying().(type) {
			case *types.Interface, *types.Pointer, *types.Map, *types.Signature:
				// initialised once by a call / literal and never reassigned: assumed non-nil
				e.decls = append(e.decls, fmt.Sprintf("(assert (and (> %s 0) (<= %s 100000)))", sym, sym))
				e.assumedGlobals = append(e.assumedGlobals, name)
			}
		}
		if elems, ok := e.ctx.initStrings[name]; ok && so == "Slice" {
			// table of string constants: its elements in the initial element heap
			if sl, isSl := t.Underlying().(*types.Slice); isSl {
				h := e.sorts().ElemHeap(sl.Elem())
				e.touch(h)
				h0 := e.initConst(h)
				e.decls = append(e.decls, fmt.Sprintf("(assert (and (> (s.arr %s) 0) (= (s.len %s) %d)))", sym, sym, len(elems)))
				for i, el := range elems {
					e.decls = append(e.decls, fmt.Sprintf("(assert (= (select (select %s (s.arr %s)) (at (s.off %s) %d)) %s))", h0, sym, sym, i, smtString(el)))
				}
				if !e.ctx.writtenTables[name] {
					// never assigned through its own name: the elements are taken to stay what the
					// literal says in every later version of the element heap (assumption, listed)
					e.tables = append(e.tables, constTable{sym: sym, heap: h.Name, elems: elems})
					if e.assumed != nil {
						e.assumed["the elements of the package-level table "+shortPath(name)+" never change (no helm function assigns through that name)"] = true
					}
				}
			}
		}
		if so == "Slice" {
			e.decls = append(e.decls, fmt.Sprintf("(assert (and (>= (s.arr %s) 0) (<= (s.arr %s) 100000) (>= (s.off %s) 0) (>= (s.len %s) 0) (>= (s.cap %s) (s.len %s))))", sym, sym, sym, sym, sym, sym))
		}
	}
	return sym, true
}

type constTable struct {
	sym, heap string
	elems     []string
}

func shortPath(name string) string {
	return strings.TrimPrefix(name, "helm.sh/helm/v4/")
}

// typeFacts emits the representation invariants of a value of Go type t.
func (e *Enc) typeFacts(term string, t types.Type, st *State) {
	e.typeFactsB(term, t, st.get(allocHeap))
}

// typeFactsB: representation invariants of a value; references are bounded by `bound`.
func (e *Enc) typeFactsB(term string, t types.Type, bound string) {
	switch u := t.Underlying().(type) {
	case *types.Slice:
		e.fact(fmt.Sprintf("(and (>= (s.arr %s) 0) (<= (s.arr %s) %s) (>= (s.off %s) 0) (>= (s.len %s) 0) (>= (s.cap %s) (s.len %s)) (=> (= (s.arr %s) 0) (= (s.cap %s) 0)))",
			term, term, bound, term, term, term, term, term, term))
	case *types.Pointer, *types.Map, *types.Chan:
		e.fact(fmt.Sprintf("(and (>= %s 0) (<= %s %s))", term, term, bound))
	case *types.Basic:
		if u.Info()&types.IsUnsigned != 0 {
			e.fact("(>= " + term + " 0)")
		}
		switch u.Kind() {
		case types.Int, types.Int64:
			e.fact(fmt.Sprintf("(and (>= %s (- 9223372036854775808)) (<= %s 9223372036854775807))", term, term))
		case types.Int32:
			e.fact(fmt.Sprintf("(and (>= %s (- 2147483648)) (<= %s 2147483647))", term, term))
		case types.Uint8:
			e.fact("(<= " + term + " 255)")
		}
	case *types.Interface:
		e.fact(fmt.Sprintf("(= (= %s 0) (= (tagOf %s) 0))", term, term))
	}
}

// ---------------------------------------------------------------- places

func (e *Enc) placeOf(v ssa.Value) *Place {
	if p, ok := e.places[v]; ok {
		return p
	}
	pt, ok := v.Type().Underlying().(*types.Pointer)
	if !ok {
		return nil
	}
	ref := e.term(v)
	el := pt.Elem()
	if _, isStruct := el.Underlying().(*types.Struct); isStruct {
		return &Place{kind: 0, ref: ref, T: el}
	}
	if a, isArr := el.Underlying().(*types.Array); isArr {
		// pointer to array: the ref is the backing array id
		_ = a
		return &Place{kind: 0, ref: ref, T: el}
	}
	return &Place{kind: 2, heap: e.sorts().CellHeap(el), ref: ref, T: el}
}

func (e *Enc) loadPlace(p *Place, st *State) string {
	s := e.sorts()
	switch p.kind {
	case 0:
		// whole struct at ref
		stt, ok := p.T.Underlying().(*types.Struct)
		if !ok {
			// whole array value: opaque
			return e.declare(e.freshName("arrval"), s.SortOf(p.T))
		}
		name := s.SortOf(p.T)
		if stt.NumFields() == 0 {
			return q("mk$" + name)
		}
		var parts []string
		for i := 0; i < stt.NumFields(); i++ {
			h := s.FieldHeap(p.T, stt.Field(i))
			parts = append(parts, "(select "+st.get(h)+" "+p.ref+")")
		}
		return "(" + q("mk$"+name) + " " + strings.Join(parts, " ") + ")"
	case 1, 2:
		base := "(select " + st.get(p.heap) + " " + p.ref + ")"
		return applyPath(s, base, p.path)
	case 3:
		base := "(select (select " + st.get(p.heap) + " " + p.ref + ") " + p.idx + ")"
		return applyPath(s, base, p.path)
	}
	panic("bad place")
}

func applyPath(s *Sorts, base string, path []pathStep) string {
	for _, ps := range path {
		base = "(" + s.structSel(ps.sortName, ps.st.Field(ps.idx).Name(), ps.idx) + " " + base + ")"
	}
	return base
}

func updatePath(s *Sorts, base string, path []pathStep, v string) string {
	if len(path) == 0 {
		return v
	}
	ps := path[0]
	var parts []string
	for i := 0; i < ps.st.NumFields(); i++ {
		sel := "(" + s.structSel(ps.sortName, ps.st.Field(i).Name(), i) + " " + base + ")"
		if i == ps.idx {
			parts = append(parts, updatePath(s, sel, path[1:], v))
		} else {
			parts = append(parts, sel)
		}
	}
	return "(" + q("mk$"+ps.sortName) + " " + strings.Join(parts, " ") + ")"
}

func (e *Enc) storePlace(p *Place, st *State, v string) {
	s := e.sorts()
	switch p.kind {
	case 0:
		stt, ok := p.T.Underlying().(*types.Struct)
		if !ok {
			e.warn("store of whole array value ignored (havoc)")
			return
		}
		name := s.SortOf(p.T)
		for i := 0; i < stt.NumFields(); i++ {
			h := s.FieldHeap(p.T, stt.Field(i))
			fv := "(" + s.structSel(name, stt.Field(i).Name(), i) + " " + v + ")"
			nh := e.define(e.freshName(h.Name), h.Sort, "(store "+st.get(h)+" "+p.ref+" "+fv+")")
			st.set(h, nh)
		}
	case 1, 2:
		old := "(select " + st.get(p.heap) + " " + p.ref + ")"
		nv := updatePath(s, old, p.path, v)
		nh := e.define(e.freshName(p.heap.Name), p.heap.Sort, "(store "+st.get(p.heap)+" "+p.ref+" "+nv+")")
		st.set(p.heap, nh)
	case 3:
		arr := "(select " + st.get(p.heap) + " " + p.ref + ")"
		old := "(select " + arr + " " + p.idx + ")"
		nv := updatePath(s, old, p.path, v)
		nh := e.define(e.freshName(p.heap.Name), p.heap.Sort, "(store "+st.get(p.heap)+" "+p.ref+" (store "+arr+" "+p.idx+" "+nv+"))")
		st.set(p.heap, nh)
	}
}

// alloc returns a fresh reference.
func (e *Enc) alloc(st *State, hint string) string {
	e.emitBoundFacts(st)
	r := e.define(e.freshName("new$"+hint), "Int", "(+ "+st.get(allocHeap)+" 1)")
	st.set(allocHeap, r)
	// ghost fields (ghost var m map[ref]T default d) of a fresh object hold their default
	for _, name := range e.ctx.ghostDefaults {
		gv := e.ctx.contracts.GVars[name]
		h := Heap{Name: "G$" + name, Kind: HGhost}
		if e.relevant != nil {
			rh, ok := e.relevant[h.Name]
			if !ok {
				continue
			}
			h = rh
		} else {
			continue
		}
		c := &EvalCtx{enc: e, pkg: e.ctx.pkgByPath(gv.Pkg), pkgPath: gv.Pkg, st: st, vars: map[string]TV{}, where: "default of ghost var " + name}
		d := c.eval(gv.Default)
		e.fact("(= (select " + st.get(h) + " " + r + ") " + d.Term + ")")
	}
	return r
}

// emitBoundFacts states, for every relevant heap that stores references, that everything stored
// in its current version is at most the heap's write bound (hence differs from any later
// allocation). Emitted once per heap version, at allocation sites, where it is needed.
func (e *Enc) emitBoundFacts(st *State) {
	if e.relevant == nil {
		return
	}
	if e.boundFactDone == nil {
		e.boundFactDone = map[string]bool{}
	}
	names := make([]string, 0, len(e.relevant))
	for k := range e.relevant {
		names = append(names, k)
	}
	sort.Strings(names)
	for _, k := range names {
		h := e.relevant[k]
		if h.Elem == 0 {
			continue
		}
		cur := e.patAlias(st.get(h), h.Sort)
		b := st.boundOf(h)
		key := cur + "|" + b + "|" + e.en[e.curBlock]
		if e.boundFactDone[key] {
			continue
		}
		e.boundFactDone[key] = true
		val := func(t string) string {
			if h.Elem == 2 {
				return "(s.arr " + t + ")"
			}
			return t
		}
		e.nquant++
		qa, qb := fmt.Sprintf("qb!%d", e.nquant), fmt.Sprintf("qc!%d", e.nquant)
		// only objects that exist now are covered: a later call into body-less code may return
		// fresh objects whose fields live in this very heap version
		now := st.get(allocHeap)
		switch h.Kind {
		case HField, HCell:
			sel := "(select " + cur + " " + qa + ")"
			e.fact(fmt.Sprintf("(forall ((%s Int)) (! (=> (<= %s %s) (<= %s %s)) :pattern (%s)))", qa, qa, now, val(sel), b, sel))
		case HElem:
			sel := "(select (select " + cur + " " + qa + ") " + qb + ")"
			e.fact(fmt.Sprintf("(forall ((%s Int) (%s Int)) (! (=> (<= %s %s) (<= %s %s)) :pattern (%s)))", qa, qb, qa, now, val(sel), b, sel))
		case HMapV:
			// key sort from the heap sort string: (Array Int (Array K V))
			ks := strings.TrimPrefix(h.Sort, "(Array Int (Array ")
			ks = ks[:strings.Index(ks, " ")]
			sel := "(select (select " + cur + " " + qa + ") " + qb + ")"
			e.fact(fmt.Sprintf("(forall ((%s Int) (%s %s)) (! (=> (<= %s %s) (<= %s %s)) :pattern (%s)))", qa, qb, ks, qa, now, val(sel), b, sel))
		}
	}
}

// patAlias gives a term that is used inside quantifier patterns a declared name of its own:
// defined heap versions may expand to terms with `ite` (stores of conditional values), which
// the solvers reject in patterns.
func (e *Enc) patAlias(term, sortName string) string {
	if strings.HasSuffix(term, "@0") || strings.HasSuffix(term, "@0|") {
		return term
	}
	if e.patAliases == nil {
		e.patAliases = map[string]string{}
	}
	if a, ok := e.patAliases[term]; ok {
		return a
	}
	e.nquant++
	a := q(fmt.Sprintf("pa$%d", e.nquant))
	e.emit(fmt.Sprintf("(declare-const %s %s)", a, sortName))
	e.emit(fmt.Sprintf("(assert (= %s %s))", a, term))
	e.patAliases[term] = a
	return a
}

// sliceHeapWF: every slice header stored in a heap version is well formed (contracts read such
// headers without going through an SSA load, which is where the other type facts are attached).
func (e *Enc) sliceHeapWF(h Heap, term string) {
	for _, tb := range e.tables {
		if tb.heap == h.Name {
			for i, el := range tb.elems {
				e.fact(fmt.Sprintf("(= (select (select %s (s.arr %s)) (at (s.off %s) %d)) %s)", term, tb.sym, tb.sym, i, smtString(el)))
			}
		}
	}
	if h.Kind == HMapL {
		// map lengths are never negative and the nil map is empty
		e.nquant++
		qa := fmt.Sprintf("qw!%d", e.nquant)
		e.fact(fmt.Sprintf("(forall ((%s Int)) (! (>= (select %s %s) 0) :pattern ((select %s %s))))", qa, term, qa, term, qa))
		e.fact(fmt.Sprintf("(= (select %s 0) 0)", term))
		return
	}
	if h.Elem != 2 {
		return
	}
	e.nquant++
	qa, qb := fmt.Sprintf("qw!%d", e.nquant), fmt.Sprintf("qx!%d", e.nquant)
	wf := func(sel string) string {
		return fmt.Sprintf("(and (>= (s.len %s) 0) (>= (s.cap %s) (s.len %s)) (>= (s.off %s) 0) (>= (s.arr %s) 0))", sel, sel, sel, sel, sel)
	}
	switch h.Kind {
	case HField, HCell, HChan:
		sel := "(select " + term + " " + qa + ")"
		e.fact(fmt.Sprintf("(forall ((%s Int)) (! %s :pattern (%s)))", qa, wf(sel), sel))
	case HElem:
		sel := "(select (select " + term + " " + qa + ") " + qb + ")"
		e.fact(fmt.Sprintf("(forall ((%s Int) (%s Int)) (! %s :pattern (%s)))", qa, qb, wf(sel), sel))
	case HMapV:
		ks := strings.TrimPrefix(h.Sort, "(Array Int (Array ")
		ks = ks[:strings.Index(ks, " ")]
		sel := "(select (select " + term + " " + qa + ") " + qb + ")"
		e.fact(fmt.Sprintf("(forall ((%s Int) (%s %s)) (! %s :pattern (%s)))", qa, qb, ks, wf(sel), sel))
	}
}

// emitEntryClosed: the heap the function is entered with is closed — an object that exists on
// entry only refers to objects that exist on entry. (Cells above the entry allocation mark are
// unconstrained: code without a body may later hand out objects living there.)
func (e *Enc) emitEntryClosed() {
	if e.relevant == nil {
		return
	}
	names := make([]string, 0, len(e.relevant))
	for k := range e.relevant {
		names = append(names, k)
	}
	sort.Strings(names)
	save := e.curBlock
	e.curBlock = nil
	defer func() { e.curBlock = save }()
	a0 := e.entry.get(allocHeap)
	for _, k := range names {
		h := e.relevant[k]
		if h.Kind == HMapL {
			e.sliceHeapWF(h, e.entry.get(h))
		}
		if h.Elem == 0 {
			continue
		}
		cur := e.entry.get(h)
		e.sliceHeapWF(h, cur)
		val := func(t string) string {
			if h.Elem == 2 {
				return "(s.arr " + t + ")"
			}
			return t
		}
		e.nquant++
		qa, qb := fmt.Sprintf("qe!%d", e.nquant), fmt.Sprintf("qf!%d", e.nquant)
		switch h.Kind {
		case HField, HCell, HChan:
			sel := "(select " + cur + " " + qa + ")"
			e.fact(fmt.Sprintf("(forall ((%s Int)) (! (=> (<= %s %s) (<= %s %s)) :pattern (%s)))", qa, qa, a0, val(sel), a0, sel))
		case HElem:
			sel := "(select (select " + cur + " " + qa + ") " + qb + ")"
			e.fact(fmt.Sprintf("(forall ((%s Int) (%s Int)) (! (=> (<= %s %s) (<= %s %s)) :pattern (%s)))", qa, qb, qa, a0, val(sel), a0, sel))
		case HMapV:
			ks := strings.TrimPrefix(h.Sort, "(Array Int (Array ")
			ks = ks[:strings.Index(ks, " ")]
			sel := "(select (select " + cur + " " + qa + ") " + qb + ")"
			e.fact(fmt.Sprintf("(forall ((%s Int) (%s %s)) (! (=> (<= %s %s) (<= %s %s)) :pattern (%s)))", qa, qb, ks, qa, a0, val(sel), a0, sel))
		}
	}
}

// zeroInit writes the zero value of t at ref.
func (e *Enc) zeroInit(st *State, ref string, t types.Type) {
	s := e.sorts()
	switch u := t.Underlying().(type) {
	case *types.Struct:
		for i := 0; i < u.NumFields(); i++ {
			h := s.FieldHeap(t, u.Field(i))
			if e.relevant != nil {
				if _, ok := e.relevant[h.Name]; !ok {
					continue
				}
			} else {
				// collecting pass: zero-initialisation alone does not make a heap relevant
				continue
			}
			nh := e.define(e.freshName(h.Name), h.Sort, "(store "+st.get(h)+" "+ref+" "+s.ZeroOf(u.Field(i).Type())+")")
			st.set(h, nh)
		}
	case *types.Array:
		h := s.ElemHeap(u.Elem())
		nh := e.define(e.freshName(h.Name), h.Sort, fmt.Sprintf("(store %s %s ((as const (Array Int %s)) %s))", st.get(h), ref, q(s.SortOf(u.Elem())), s.ZeroOf(u.Elem())))
		st.set(h, nh)
	default:
		h := s.CellHeap(t)
		nh := e.define(e.freshName(h.Name), h.Sort, "(store "+st.get(h)+" "+ref+" "+s.ZeroOf(t)+")")
		st.set(h, nh)
	}
}

// ---------------------------------------------------------------- driver

func (e *Enc) run() (err error) {
	defer func() {
		if r := recover(); r != nil {
			if pe, ok := r.(error); ok && (strings.HasPrefix(pe.Error(), "contract error") || strings.HasPrefix(pe.Error(), "contract structure lost")) {
				err = pe
				return
			}
			panic(r)
		}
	}()
	fn := e.fn
	e.declSeen = map[string]bool{}
	e.vals = map[ssa.Value]string{}
	e.tuples = map[ssa.Value][]string{}
	e.places = map[ssa.Value]*Place{}
	e.en = map[*ssa.BasicBlock]string{}
	e.out = map[*ssa.BasicBlock]*State{}
	e.edges = map[*ssa.BasicBlock][]edge{}
	e.escaped = map[string]Heap{}
	e.sliceRoots = map[ssa.Value]sliceRoot{}
	e.boundFactDone = nil
	e.counts = map[string]int{}
	e.callOrd = map[string]int{}
	e.params = map[string]TV{}
	e.assumed = map[string]bool{}
	e.unknown = map[string]bool{}
	e.touched = map[string]Heap{}
	e.items = nil
	e.decls = nil
	e.obligs = nil
	e.nfresh = 0
	e.nquant = 0
	e.retOrd = 0
	e.warnings = nil
	e.deferred = nil
	e.assertDone = nil
	e.assertSeen = nil
	e.ensuresAtSeen = nil
	e.resolveCut = 0

	e.entry = &State{m: map[string]string{}, b: map[string]string{}, enc: e}
	e.touch(allocHeap)
	e.findLoops()
	e.findLocalAllocs()
	if e.fc != nil {
		maxOrd := 0
		for _, li := range e.loops {
			if li.ordinal > maxOrd {
				maxOrd = li.ordinal
			}
		}
		for _, cl := range e.fc.Invs {
			if cl.Loop > maxOrd {
				panic(fmt.Errorf("contract structure lost: %s has %d loop(s); the invariant for loop %d has nothing to attach to", e.key, maxOrd, cl.Loop))
			}
		}
	}

	// parameters and free variables
	e.curBlock = nil
	e.emit(fmt.Sprintf("(assert (>= %s %d))", e.entry.get(allocHeap), e.ctx.nGlobals()+1))
	for pi, p := range fn.Params {
		pname := p.Name()
		if pname == "_" || pname == "" {
			pname = fmt.Sprintf("_%d", pi)
		}
		t := e.declare("p$"+pname, e.sorts().SortOf(p.Type()))
		e.vals[p] = t
		e.typeFactsAt(t, p.Type(), e.entry)
		e.params[p.Name()] = TV{Term: t, Sort: e.sorts().SortOf(p.Type()), T: p.Type()}
	}
	for _, fv := range fn.FreeVars {
		t := e.declare("fv$"+fv.Name(), "Int")
		e.vals[fv] = t
		e.typeFactsAt(t, fv.Type(), e.entry)
		e.emit("(assert (> " + t + " 0))") // a captured variable's address is never nil
		// a free variable is a pointer to the captured variable: contracts refer to the
		// captured variable by name, meaning its value when the closure is entered
		// (captured variables are resolved by name through resolveLocal, in the state the
		// expression is evaluated in: `x` at a return is its current value, `old(x)` its value on entry)
	}
	// string tables referenced by the body are registered before the first heap version is cut
	e.tables = nil
	for _, b := range fn.Blocks {
		for _, in := range b.Instrs {
			var ops []*ssa.Value
			for _, op := range in.Operands(ops) {
				if op == nil || *op == nil {
					continue
				}
				if g, ok := (*op).(*ssa.Global); ok {
					if _, isTab := e.ctx.initStrings[g.String()]; isTab {
						e.constGlobal(g.String(), g.Type().(*types.Pointer).Elem())
					}
				}
			}
		}
	}
	e.emitEntryClosed()
	// requires
	if e.fc != nil {
		for i, cl := range e.fc.Requires {
			c := e.evalCtx(e.entry, nil, e.params, func(name string, rs *State) (TV, bool) { return e.resolveLocal(name, nil, rs) }, fmt.Sprintf("%s requires#%d", e.key, i+1))
			e.emit("(assert " + c.boolTerm(cl.E) + ")")
		}
		// vacuity: the precondition (with type facts) must be satisfiable
		if len(e.fc.Requires) > 0 {
			o := e.oblig("vacuity", "requires-satisfiable", "false", "the conjunction of the requires clauses is satisfiable", nil)
			o.Expect = "sat"
		}
	}

	order := e.topoOrder()
	for _, b := range order {
		e.encodeBlock(b)
	}
	if e.fc != nil {
		for i, cl := range e.fc.Ensures {
			if cl.At != "" && !e.ensuresAtSeen[i] {
				// not an error: the return the clause speaks about is gone (the other clauses still
				// bind every remaining return); reported in the evidence
				e.warnings = append(e.warnings, fmt.Sprintf("ensures#%d applies at returns on a line containing %q: there is no such return", i+1, cl.At))
			}
		}
		for i, cl := range e.fc.Asserts {
			seen := false
			for _, j := range e.assertSeen {
				if j == i {
					seen = true
				}
			}
			if !seen {
				panic(fmt.Errorf("contract error (%s assert#%d): no statement of the function is on a line containing %q", e.key, i+1, cl.At+cl.Before))
			}
		}
	}
	return nil
}

func (e *Enc) typeFactsAt(term string, t types.Type, st *State) {
	save := e.curBlock
	e.curBlock = nil
	e.typeFacts(term, t, st)
	e.curBlock = save
}

func (e *Enc) evalCtx(st, old *State, vars map[string]TV, resolve func(string, *State) (TV, bool), where string) *EvalCtx {
	var pkg *types.Package
	pkgPath := ""
	if e.fc != nil {
		pkgPath = e.fc.Pkg
		pkg = e.ctx.pkgByPath(pkgPath)
	} else if e.fn != nil && e.fn.Pkg != nil {
		pkg = e.fn.Pkg.Pkg
		pkgPath = pkg.Path()
	}
	return &EvalCtx{enc: e, pkg: pkg, pkgPath: pkgPath, st: st, old: old, vars: vars, resolve: resolve, where: where}
}

// findLoops computes back edges, natural loops and their source ordinals.
func (e *Enc) findLoops() {
	e.loops = map[*ssa.BasicBlock]*loopInfo{}
	fn := e.fn
	for _, b := range fn.Blocks {
		for _, s := range b.Succs {
			if s.Dominates(b) {
				li := e.loops[s]
				if li == nil {
					li = &loopInfo{head: s, body: map[*ssa.BasicBlock]bool{s: true}}
					e.loops[s] = li
				}
				// natural loop: all blocks that reach b without passing through s
				var stack []*ssa.BasicBlock
				if !li.body[b] {
					li.body[b] = true
					stack = append(stack, b)
				}
				for len(stack) > 0 {
					x := stack[len(stack)-1]
					stack = stack[:len(stack)-1]
					for _, p := range x.Preds {
						if !li.body[p] {
							li.body[p] = true
							stack = append(stack, p)
						}
					}
				}
			}
		}
	}
	var heads []*ssa.BasicBlock
	for h := range e.loops {
		heads = append(heads, h)
	}
	sort.Slice(heads, func(i, j int) bool { return heads[i].Index < heads[j].Index })
	for i, h := range heads {
		e.loops[h].ordinal = i + 1
		for _, in := range h.Instrs {
			if n, ok := in.(*ssa.Next); ok {
				if r, ok := n.Iter.(*ssa.Range); ok {
					e.loops[h].rangeV = r
				}
			}
		}
	}
	// cross-check with the syntax
	if fn.Syntax() != nil {
		n := 0
		var body ast.Node
		switch s := fn.Syntax().(type) {
		case *ast.FuncDecl:
			body = s.Body
		case *ast.FuncLit:
			body = s.Body
		}
		if body != nil {
			ast.Inspect(body, func(nd ast.Node) bool {
				switch nd.(type) {
				case *ast.FuncLit:
					return false
				case *ast.ForStmt, *ast.RangeStmt:
					n++
				}
				return true
			})
			if n != len(heads) {
				e.warn("loop count mismatch: %d loops in the syntax, %d in the SSA (a loop without back edge or a goto loop); loop ordinals follow the SSA", n, len(heads))
			}
		}
	}
}

func (e *Enc) isBackEdge(from, to *ssa.BasicBlock) bool {
	return to.Dominates(from) && e.loops[to] != nil
}

func (e *Enc) topoOrder() []*ssa.BasicBlock {
	fn := e.fn
	visited := map[*ssa.BasicBlock]bool{}
	var post []*ssa.BasicBlock
	var dfs func(b *ssa.BasicBlock)
	dfs = func(b *ssa.BasicBlock) {
		visited[b] = true
		for _, s := range b.Succs {
			if e.isBackEdge(b, s) || visited[s] {
				continue
			}
			dfs(s)
		}
		post = append(post, b)
	}
	if len(fn.Blocks) > 0 {
		dfs(fn.Blocks[0])
	}
	for i, j := 0, len(post)-1; i < j; i, j = i+1, j-1 {
		post[i], post[j] = post[j], post[i]
	}
	return post
}

// loopMods computes which relevant heaps a loop may modify.
func (e *Enc) loopMods(li *loopInfo) ModSet {
	var mod ModSet
	inScope := func(i ssa.Instruction) bool { return li.body[i.Block()] }
	for b := range li.body {
		for _, in := range b.Instrs {
			mod.union(e.ctx.mods.instrMods(e.fn, in, inScope))
		}
	}
	return mod
}

func (e *Enc) mergeStates(b *ssa.BasicBlock, edges []edge) *State {
	return e.mergeStatesN(fmt.Sprint(b.Index), edges)
}

func (e *Enc) mergeStatesN(tag string, edges []edge) *State {
	if len(edges) == 1 {
		return edges[0].st.clone()
	}
	st := &State{m: map[string]string{}, b: map[string]string{}, enc: e}
	names := map[string]bool{}
	for _, ed := range edges {
		for k := range ed.st.m {
			names[k] = true
		}
	}
	var keys []string
	for k := range names {
		keys = append(keys, k)
	}
	sort.Strings(keys)
	for _, k := range keys {
		h := e.heapByName(k)
		first := edges[0].st.get(h)
		same := true
		for _, ed := range edges[1:] {
			if ed.st.get(h) != first {
				same = false
			}
		}
		if same {
			st.m[k] = first
			continue
		}
		term := edges[len(edges)-1].st.get(h)
		for i := len(edges) - 2; i >= 0; i-- {
			term = "(ite " + edges[i].cond + " " + edges[i].st.get(h) + " " + term + ")"
		}
		// a declared constant plus a defining equation (not define-fun): solvers expand
		// define-fun as a macro, and an `ite` inside a quantifier pattern is rejected
		st.m[k] = e.declare(fmt.Sprintf("m$%s$%s", tag, k), h.Sort)
		e.emit("(assert (= " + st.m[k] + " " + term + "))")
	}
	// write bounds: equal on all paths, or the merged allocation counter
	st.b = map[string]string{}
	st.bdef = edges[0].st.bdef
	for _, ed := range edges[1:] {
		if ed.st.bdef != st.bdef {
			st.bdef = st.get(allocHeap)
		}
	}
	bn := map[string]bool{}
	for _, ed := range edges {
		for k := range ed.st.b {
			bn[k] = true
		}
	}
	for k := range bn {
		h := e.heapByName(k)
		first := edges[0].st.boundOf(h)
		same := true
		for _, ed := range edges[1:] {
			if ed.st.boundOf(h) != first {
				same = false
			}
		}
		if same {
			st.b[k] = first
		} else {
			st.b[k] = st.get(allocHeap)
		}
	}
	return st
}

func (e *Enc) heapByName(name string) Heap {
	if h, ok := e.touched[name]; ok {
		return h
	}
	if h, ok := e.relevant[name]; ok {
		return h
	}
	panic("unknown heap " + name)
}

func (e *Enc) encodeBlock(b *ssa.BasicBlock) {
	fn := e.fn
	edges := e.edges[b]
	li := e.loops[b]
	if b != fn.Blocks[0] && len(edges) == 0 {
		// unreachable in the cut graph
		e.en[b] = "false"
		e.out[b] = e.entry.clone()
		e.curBlock = b
		return
	}
	// guard
	var st *State
	if b == fn.Blocks[0] && e.inl != nil {
		e.en[b] = e.inl.guard
		st = e.inl.st.clone()
	} else if b == fn.Blocks[0] {
		e.en[b] = "true"
		st = e.entry.clone()
	} else {
		var conds []string
		for _, ed := range edges {
			conds = append(conds, ed.cond)
		}
		g := conds[0]
		if len(conds) > 1 {
			g = "(or " + strings.Join(conds, " ") + ")"
		}
		e.en[b] = e.define(fmt.Sprintf("en$%d", b.Index), "Bool", g)
		st = e.mergeStates(b, edges)
	}
	e.curBlock = b
	e.out[b] = st

	// phis
	phiIn := func(phi *ssa.Phi, from *ssa.BasicBlock) string {
		for i, p := range b.Preds {
			if p == from {
				return e.term(phi.Edges[i])
			}
		}
		panic("phi edge not found")
	}
	var phis []*ssa.Phi
	for _, in := range b.Instrs {
		if p, ok := in.(*ssa.Phi); ok {
			phis = append(phis, p)
		}
	}
	entryPhi := func(phi *ssa.Phi) string {
		term := phiIn(phi, edges[len(edges)-1].from)
		for i := len(edges) - 2; i >= 0; i-- {
			term = "(ite " + edges[i].cond + " " + phiIn(phi, edges[i].from) + " " + term + ")"
		}
		return term
	}
	if li != nil {
		// --- loop head: assert invariants on entry
		entryVals := map[*ssa.Phi]string{}
		for _, p := range phis {
			entryVals[p] = entryPhi(p)
		}
		e.checkInvariants(li, st, func(p *ssa.Phi) string { return entryVals[p] }, "entry", e.en[b])
		// havoc
		mods := e.loopMods(li)
		var mk []string
		for k := range mods.m {
			mk = append(mk, k)
		}
		sort.Strings(mk)
		preAlloc := st.get(allocHeap)
		if false && mods.opaque && e.relevant != nil {
			for k, h := range e.relevant {
				if _, in := mods.m[k]; !in && h.Kind != HGhost && h.Kind != HAlloc && !strings.HasPrefix(k, "D$") {
					mods.add(k, ModFresh)
					mk = append(mk, k)
				}
			}
			sort.Strings(mk)
		}
		for _, k := range mk {
			h, ok := e.relevantHeap(k)
			if !ok {
				continue
			}
			if h.Kind == HAlloc {
				nv := e.declare(e.freshName(fmt.Sprintf("loop%d$alloc", li.ordinal)), "Int")
				st.set(h, nv)
				e.fact("(>= " + nv + " " + preAlloc + ")")
				continue
			}
			prev := st.get(h)
			nv := e.declare(e.freshName(fmt.Sprintf("loop%d$%s", li.ordinal, k)), h.Sort)
			st.set(h, nv)
			e.sliceHeapWF(h, nv)
			if mods.m[k] == ModFresh && strings.HasPrefix(h.Sort, "(Array Int") {
				// only objects allocated inside the loop are written: older objects keep their content
				qv := fmt.Sprintf("qr!%d", e.nfresh)
				e.fact(fmt.Sprintf("(forall ((%s Int)) (! (=> (<= %s %s) (= (select %s %s) (select %s %s))) :pattern ((select %s %s))))",
					qv, qv, preAlloc, nv, qv, prev, qv, nv, qv))
			}
		}
		if mods.opaque {
			st.resetBounds()
		}
		if li.rangeV != nil {
			h := e.doneHeap(li.rangeV)
			st.set(h, e.declare(e.freshName(fmt.Sprintf("loop%d$done", li.ordinal)), h.Sort))
		}
		for _, p := range phis {
			e.havocVal(p)
		}
		// a counter that starts at 0 and is only ever incremented by 1 is never negative
		for _, p := range phis {
			if isUpCounter(li, p) {
				e.fact("(>= " + e.vals[p] + " 0)")
			}
		}
		// range-over-slice index: -1 <= idx and idx+1 <= len (a property of the SSA lowering)
		for _, p := range phis {
			if p.Comment != "rangeindex" {
				continue
			}
			for _, in2 := range b.Instrs {
				add, ok := in2.(*ssa.BinOp)
				if !ok || add.Op != token.ADD || add.X != ssa.Value(p) {
					continue
				}
				for _, in3 := range b.Instrs {
					lt, ok := in3.(*ssa.BinOp)
					if ok && lt.Op == token.LSS && lt.X == ssa.Value(add) {
						if _, defined := e.vals[lt.Y]; defined || isConst(lt.Y) {
							e.fact(fmt.Sprintf("(and (>= %s (- 1)) (<= (+ %s 1) %s))", e.vals[p], e.vals[p], e.term(lt.Y)))
						}
					}
				}
			}
		}
		// assume invariants
		e.assumeInvariants(li, st, func(p *ssa.Phi) string { return e.vals[p] })
		if len(e.invariantsOf(li)) > 0 {
			o := e.oblig("vacuity", fmt.Sprintf("reachable@loop%d", li.ordinal), "false", fmt.Sprintf("the head of loop %d is reachable with its invariants assumed", li.ordinal), nil)
			o.Expect = "sat"
		}
	} else {
		for _, p := range phis {
			if len(edges) == 0 {
				e.havocVal(p)
				continue
			}
			if len(edges) > 1 {
				t := e.declare("v$"+p.Name(), e.sorts().SortOf(p.Type()))
				e.vals[p] = t
				e.emit("(assert (= " + t + " " + entryPhi(p) + "))")
			} else {
				e.setVal(p, e.sorts().SortOf(p.Type()), entryPhi(p))
			}
		}
	}

	curLine := 0
	for idx, in := range b.Instrs {
		if _, ok := in.(*ssa.Phi); ok {
			continue
		}
		if e.inl == nil && e.fc != nil && len(e.fc.Asserts) > 0 {
			if pos := in.Pos(); pos.IsValid() {
				if _, isDbg := in.(*ssa.DebugRef); !isDbg {
					line := fn.Prog.Fset.Position(pos).Line
					if line != curLine {
						e.checkAsserts(b, idx, curLine, st, false)
						curLine = line
						// `assert … before "text"`: in the state before the first instruction of the line
						e.checkAsserts(b, idx, line, st, true)
					}
				}
			}
		}
		e.encodeInstr(in, st)
	}
	if e.inl == nil && e.fc != nil && len(e.fc.Asserts) > 0 {
		e.checkAsserts(b, len(b.Instrs), curLine, st, false)
	}

	// successors
	addEdge := func(to *ssa.BasicBlock, cond string) {
		full := e.en[b]
		if cond != "true" {
			if full == "true" {
				full = cond
			} else {
				full = "(and " + e.en[b] + " " + cond + ")"
			}
		}
		name := e.define(fmt.Sprintf("edge$%d$%d$%d", b.Index, to.Index, len(e.edges[to])), "Bool", full)
		if e.isBackEdge(b, to) {
			// assert the invariant of the loop headed by `to`
			lp := e.loops[to]
			save := e.curBlock
			e.checkInvariants(lp, st, func(p *ssa.Phi) string {
				for i, pr := range to.Preds {
					if pr == b {
						return e.term(p.Edges[i])
					}
				}
				panic("phi edge")
			}, fmt.Sprintf("back#%d", e.count(fmt.Sprintf("back%d", lp.ordinal))), name)
			e.curBlock = save
			return
		}
		e.edges[to] = append(e.edges[to], edge{from: b, cond: name, st: st})
	}
	if len(b.Instrs) > 0 {
		switch t := b.Instrs[len(b.Instrs)-1].(type) {
		case *ssa.If:
			c := e.term(t.Cond)
			addEdge(b.Succs[0], c)
			addEdge(b.Succs[1], "(not "+c+")")
		case *ssa.Jump:
			addEdge(b.Succs[0], "true")
		}
	}
}

func (e *Enc) relevantHeap(name string) (Heap, bool) {
	if e.relevant == nil {
		h, ok := e.touched[name]
		return h, ok
	}
	h, ok := e.relevant[name]
	return h, ok
}

func (e *Enc) doneHeap(r *ssa.Range) Heap {
	ks := "Int"
	if m, ok := r.X.Type().Underlying().(*types.Map); ok {
		ks = e.sorts().SortOf(m.Key())
	}
	return Heap{Name: "D$" + r.Name(), Sort: "(Array " + q(ks) + " Bool)", Kind: HGhost}
}

// resolver for names at a loop head.
func (e *Enc) loopResolver(li *loopInfo, st0 *State, phiVal func(*ssa.Phi) string, from *ssa.BasicBlock) func(string, *State) (TV, bool) {
	s := e.sorts()
	var self func(name string, st *State) (TV, bool)
	self = func(name string, st *State) (TV, bool) {
		if st == nil {
			st = st0
		}
		// #iter$N / #done$N / #range$N: the same notions for the enclosing loop with ordinal N
		if strings.HasPrefix(name, "#") && strings.Contains(name, "$") {
			parts := strings.SplitN(name, "$", 2)
			var n int
			fmt.Sscanf(parts[1], "%d", &n)
			for _, other := range e.loops {
				if other.ordinal == n && other != li && other.body[li.head] {
					return e.loopResolver(other, st, func(p *ssa.Phi) string { return e.term(p) }, from)(parts[0], st)
				}
			}
			return TV{}, false
		}
		if name == "#iter" {
			for _, in := range li.head.Instrs {
				if p, ok := in.(*ssa.Phi); ok && p.Comment == "rangeindex" {
					return TV{Term: "(+ " + phiVal(p) + " 1)", Sort: "Int", T: types.Typ[types.Int]}, true
				}
			}
			// a counted loop `for i := 0; ...; i++`: the number of completed iterations is i
			for _, in := range li.head.Instrs {
				p, ok := in.(*ssa.Phi)
				if !ok {
					continue
				}
				if b, ok := p.Type().Underlying().(*types.Basic); !ok || b.Info()&types.IsInteger == 0 {
					continue
				}
				zeroIn, stepBack := false, false
				for i, ed := range p.Edges {
					pred := li.head.Preds[i]
					if li.body[pred] {
						if add, ok := ed.(*ssa.BinOp); ok && add.Op == token.ADD && add.X == ssa.Value(p) {
							if c, ok := add.Y.(*ssa.Const); ok && c.Value != nil && c.Value.ExactString() == "1" {
								stepBack = true
								continue
							}
						}
						stepBack = false
						break
					}
					if c, ok := ed.(*ssa.Const); ok && c.Value != nil && c.Value.ExactString() == "0" {
						zeroIn = true
					} else {
						zeroIn = false
						break
					}
				}
				if zeroIn && stepBack {
					return TV{Term: phiVal(p), Sort: "Int", T: types.Typ[types.Int]}, true
				}
			}
			panic(fmt.Errorf("contract structure lost: loop %d of %s is not a range over a slice or array (nor a loop counting up from 0) any more (#iter has no meaning)", li.ordinal, e.key))
		}
		if name == "#range" {
			// the slice ranged over by a range-over-slice loop
			for _, in := range li.head.Instrs {
				lt, ok := in.(*ssa.BinOp)
				if !ok || lt.Op != token.LSS {
					continue
				}
				if call, ok := lt.Y.(*ssa.Call); ok {
					if b, ok := call.Call.Value.(*ssa.Builtin); ok && b.Name() == "len" {
						x := call.Call.Args[0]
						return TV{Term: e.term(x), Sort: s.SortOf(x.Type()), T: x.Type()}, true
					}
				}
			}
			// the map (or string) ranged over by a range-over-map loop
			if li.rangeV != nil {
				x := li.rangeV.X
				return TV{Term: e.term(x), Sort: s.SortOf(x.Type()), T: x.Type()}, true
			}
			panic(fmt.Errorf("contract structure lost: loop %d of %s is not a range loop any more (#range has no meaning)", li.ordinal, e.key))
		}
		if name == "#done" {
			if li.rangeV == nil {
				panic(fmt.Errorf("contract structure lost: loop %d of %s is not a range over a map any more (#done has no meaning)", li.ordinal, e.key))
			}
			h := e.doneHeap(li.rangeV)
			ks := "Int"
			var kt *TypeExpr = &TypeExpr{Kind: "name", Name: "int"}
			if m, ok := li.rangeV.X.Type().Underlying().(*types.Map); ok {
				ks = s.SortOf(m.Key())
				if ks == "String" {
					kt = &TypeExpr{Kind: "name", Name: "string"}
				}
			}
			_ = ks
			return TV{Term: st.get(h), Sort: h.Sort, G: &TypeExpr{Kind: "set", Key: kt}}, true
		}
		for _, in := range li.head.Instrs {
			if p, ok := in.(*ssa.Phi); ok && p.Comment == name {
				return TV{Term: phiVal(p), Sort: s.SortOf(p.Type()), T: p.Type()}, true
			}
		}
		return e.resolveLocal(name, from, st)
	}
	return self
}

// checkAsserts generates the obligations of `assert ... at "text"` clauses whose text occurs on the
// source line whose statements have just been encoded (the instructions of block b before index cut).
func (e *Enc) checkAsserts(b *ssa.BasicBlock, cut int, line int, st *State, before bool) {
	if line == 0 {
		return
	}
	var text string
	for _, in := range b.Instrs {
		if pos := in.Pos(); pos.IsValid() && e.fn.Prog.Fset.Position(pos).Line == line {
			text = e.ctx.sourceLine(e.fn, pos)
			break
		}
	}
	if text == "" {
		return
	}
	for i, cl := range e.fc.Asserts {
		anchor, where := cl.At, "after"
		if before {
			anchor, where = cl.Before, "before"
		}
		if anchor == "" || !strings.Contains(text, anchor) {
			continue
		}
		if e.assertDone == nil {
			e.assertDone = map[string]bool{}
		}
		key := fmt.Sprintf("%d@%d@%d@%v", i, line, b.Index, before)
		if e.assertDone[key] {
			continue
		}
		e.assertDone[key] = true
		save := e.resolveCut
		e.resolveCut = cut
		c := e.evalCtx(st, e.entry, e.params, func(name string, rs *State) (TV, bool) { return e.resolveLocal(name, b, rs) }, fmt.Sprintf("%s assert#%d", e.key, i+1))
		goal := c.boolTerm(cl.E)
		e.resolveCut = save
		label := cl.Label
		if label == "" {
			label = fmt.Sprint(i + 1)
		}
		n := e.count("assert." + label)
		e.oblig("assert", fmt.Sprintf("assert[%s]#%d", label, n), goal, cl.Src+"   ["+where+" the statement at "+posOfLine(e.fn, b, line)+"]", cl)
		e.fact(goal)
		e.assertSeen = append(e.assertSeen, i)
	}
}

func posOfLine(fn *ssa.Function, b *ssa.BasicBlock, line int) string {
	for _, in := range b.Instrs {
		if pos := in.Pos(); pos.IsValid() {
			p := fn.Prog.Fset.Position(pos)
			if p.Line == line {
				return fmt.Sprintf("%s:%d", p.Filename, p.Line)
			}
		}
	}
	return fmt.Sprint(line)
}

// resolveLocal finds the value of a source-level variable visible at the end of
// block `at` (searching dominating DebugRefs, parameters and named allocations).
func (e *Enc) resolveLocal(name string, at *ssa.BasicBlock, st *State) (TV, bool) {
	s := e.sorts()
	if strings.HasPrefix(name, "&") {
		// address of an address-taken local: the Alloc that holds it
		want := name[1:]
		for b := at; b != nil; b = b.Idom() {
			for i := len(b.Instrs) - 1; i >= 0; i-- {
				if al, ok := b.Instrs[i].(*ssa.Alloc); ok && al.Comment == want {
					if t, ok := e.vals[al]; ok {
						return TV{Term: t, Sort: "Int", T: al.Type()}, true
					}
				}
			}
		}
		return TV{}, false
	}
	if p, ok := e.params[name]; ok {
		return p, true
	}
	// a captured variable of a closure is a cell: its value is read in the state the expression is
	// evaluated in (so that old(x) is its value on entry), not taken from the SSA value last assigned
	for _, fv := range e.fn.FreeVars {
		if fv.Name() == name {
			if pl := e.placeOf(fv); pl != nil {
				return TV{Term: e.loadPlace(pl, st), Sort: s.SortOf(pl.T), T: pl.T}, true
			}
		}
	}
	for b := at; b != nil; b = b.Idom() {
		start := len(b.Instrs) - 1
		if b == at && e.resolveCut > 0 && e.resolveCut <= len(b.Instrs) {
			start = e.resolveCut - 1
		}
		for i := start; i >= 0; i-- {
			switch in := b.Instrs[i].(type) {
			case *ssa.DebugRef:
				if in.Object() == nil || in.Object().Name() != name {
					continue
				}
				if _, isVar := in.Object().(*types.Var); !isVar {
					continue
				}
				if in.IsAddr {
					pl := e.placeOf(in.X)
					if pl == nil {
						continue
					}
					return TV{Term: e.loadPlace(pl, st), Sort: s.SortOf(pl.T), T: pl.T}, true
				}
				if _, ok := e.vals[in.X]; !ok {
					if _, isC := in.X.(*ssa.Const); !isC {
						continue
					}
				}
				return TV{Term: e.term(in.X), Sort: s.SortOf(in.X.Type()), T: in.X.Type()}, true
			case *ssa.Phi:
				if in.Comment == name {
					if t, ok := e.vals[in]; ok {
						return TV{Term: t, Sort: s.SortOf(in.Type()), T: in.Type()}, true
					}
				}
			case *ssa.Alloc:
				if in.Comment == name {
					pl := e.placeOf(in)
					if _, ok := e.vals[in]; ok && pl != nil {
						return TV{Term: e.loadPlace(pl, st), Sort: s.SortOf(pl.T), T: pl.T}, true
					}
				}
			}
		}
	}
	// free variables of closures: captured variable by name
	for _, fv := range e.fn.FreeVars {
		if fv.Name() == name {
			pl := e.placeOf(fv)
			if pl != nil {
				return TV{Term: e.loadPlace(pl, st), Sort: s.SortOf(pl.T), T: pl.T}, true
			}
		}
	}
	return TV{}, false
}

func (e *Enc) invariantsOf(li *loopInfo) []*Clause {
	var r []*Clause
	if e.fc == nil {
		return nil
	}
	for _, c := range e.fc.Invs {
		if c.Loop == li.ordinal {
			r = append(r, c)
		}
	}
	return r
}

func (e *Enc) checkInvariants(li *loopInfo, st *State, phiVal func(*ssa.Phi) string, where string, guard string) {
	from := e.curBlock
	if where == "entry" {
		// resolve locals from the forward predecessors' common dominator = idom of the head
		from = li.head.Idom()
		if from == nil {
			from = li.head
		}
	}
	for i, cl := range e.invariantsOf(li) {
		c := e.evalCtx(st, e.entry, e.params, e.loopResolver(li, st, phiVal, from), fmt.Sprintf("%s loop %d invariant#%d", e.key, li.ordinal, i+1))
		goal := c.boolTerm(cl.E)
		label := cl.Label
		if label == "" {
			label = fmt.Sprint(i + 1)
		}
		kind := "inv-entry"
		if where != "entry" {
			kind = "inv-back"
		}
		if where == "entry" {
			e.obligGuarded(kind, fmt.Sprintf("loop%d.inv[%s]@%s", li.ordinal, label, where), guard, goal, cl.Src, cl)
		} else {
			e.obligSplit(kind, fmt.Sprintf("loop%d.inv[%s]@%s", li.ordinal, label, where), guard, goal, cl.Src, cl)
		}
	}
}

func (e *Enc) assumeInvariants(li *loopInfo, st *State, phiVal func(*ssa.Phi) string) {
	from := li.head.Idom()
	if from == nil {
		from = li.head
	}
	for i, cl := range e.invariantsOf(li) {
		c := e.evalCtx(st, e.entry, e.params, e.loopResolver(li, st, phiVal, from), fmt.Sprintf("%s loop %d invariant#%d", e.key, li.ordinal, i+1))
		e.fact(c.boolTerm(cl.E))
	}
	if len(e.invariantsOf(li)) == 0 && e.fc != nil && !e.collect {
		e.warn("loop %d has no invariant (state written in the loop is havocked at its head)", li.ordinal)
	}
}

// ---------------------------------------------------------------- instructions

func posOf(fn *ssa.Function, p token.Pos) string {
	if !p.IsValid() || fn.Prog == nil {
		return ""
	}
	pp := fn.Prog.Fset.Position(p)
	return fmt.Sprintf("%s:%d", pp.Filename, pp.Line)
}

func (e *Enc) safety(kind, what, goal string, pos token.Pos) {
	if e.fc != nil && e.fc.NoSafety {
		return
	}
	n := e.count("safety:" + kind + ":" + what)
	o := e.oblig("safety", fmt.Sprintf("safety.%s(%s)#%d", kind, what, n), goal, kind+" "+what+" at "+posOf(e.fn, pos), nil)
	_ = o
	// after the check, execution continues only if it passed
	e.fact(goal)
}

func (e *Enc) encodeInstr(in ssa.Instruction, st *State) {
	s := e.sorts()
	switch in := in.(type) {
	case *ssa.DebugRef:
		return
	case *ssa.Alloc:
		r := e.alloc(st, in.Name())
		e.vals[in] = r
		el := in.Type().Underlying().(*types.Pointer).Elem()
		e.zeroInit(st, r, el)
	case *ssa.FieldAddr:
		base := e.placeOf(in.X)
		if base == nil {
			e.havocVal(in)
			return
		}
		stt := base.T.Underlying().(*types.Struct)
		f := stt.Field(in.Field)
		if base.kind == 0 {
			e.safety("nil", f.Name(), "(not (= "+base.ref+" 0))", in.Pos())
			e.places[in] = &Place{kind: 1, heap: s.FieldHeap(base.T, f), ref: base.ref, T: f.Type()}
		} else {
			np := *base
			np.path = append(append([]pathStep{}, base.path...), pathStep{s.SortOf(base.T), stt, in.Field})
			np.T = f.Type()
			e.places[in] = &np
		}
	case *ssa.IndexAddr:
		idx := e.term(in.Index)
		switch u := in.X.Type().Underlying().(type) {
		case *types.Slice:
			x := e.term(in.X)
			e.safety("index", in.X.Name(), fmt.Sprintf("(and (>= %s 0) (< %s (s.len %s)))", idx, idx, x), in.Pos())
			arr, cell := e.cellOf(in.X, idx)
			e.places[in] = &Place{kind: 3, heap: s.ElemHeap(u.Elem()), ref: arr, idx: cell, T: u.Elem()}
		case *types.Pointer:
			a := u.Elem().Underlying().(*types.Array)
			if _, isPlace := e.places[in.X]; isPlace {
				e.warn("array embedded in a struct is not modelled (%s)", in)
				e.places[in] = &Place{kind: 2, heap: s.CellHeap(a.Elem()), ref: e.declare(e.freshName("arrcell"), "Int"), T: a.Elem()}
				return
			}
			x := e.term(in.X)
			if c, ok := in.Index.(*ssa.Const); !ok || c.Int64() < 0 || c.Int64() >= a.Len() {
				e.safety("index", in.X.Name(), fmt.Sprintf("(and (>= %s 0) (< %s %d))", idx, idx, a.Len()), in.Pos())
			}
			e.places[in] = &Place{kind: 3, heap: s.ElemHeap(a.Elem()), ref: x, idx: idx, T: a.Elem()}
		default:
			e.havocVal(in)
		}
	case *ssa.UnOp:
		e.encodeUnOp(in, st)
	case *ssa.BinOp:
		e.encodeBinOp(in)
	case *ssa.Store:
		pl := e.placeOf(in.Addr)
		if pl == nil {
			e.warn("store through unmodelled address %s", in.Addr)
			return
		}
		if pl.kind == 0 || pl.kind == 2 {
			if _, isAlloc := in.Addr.(*ssa.Alloc); !isAlloc {
				if _, isGlobal := in.Addr.(*ssa.Global); !isGlobal {
					e.safety("nil", "*"+in.Addr.Name(), "(not (= "+pl.ref+" 0))", in.Pos())
				}
			}
		}
		e.storePlace(pl, st, e.term(in.Val))
	case *ssa.MakeMap:
		r := e.alloc(st, in.Name())
		e.vals[in] = r
		m := in.Type().Underlying().(*types.Map)
		hp, _, hl := s.MapHeaps(m)
		st.set(hp, e.define(e.freshName(hp.Name), hp.Sort, fmt.Sprintf("(store %s %s ((as const (Array %s Bool)) false))", st.get(hp), r, q(s.SortOf(m.Key())))))
		st.set(hl, e.define(e.freshName(hl.Name), hl.Sort, fmt.Sprintf("(store %s %s 0)", st.get(hl), r)))
	case *ssa.MakeSlice:
		r := e.alloc(st, in.Name())
		sl := in.Type().Underlying().(*types.Slice)
		h := s.ElemHeap(sl.Elem())
		ln, cp := e.term(in.Len), e.term(in.Cap)
		e.safety("makeslice", in.Name(), fmt.Sprintf("(and (>= %s 0) (>= %s %s))", ln, cp, ln), in.Pos())
		st.set(h, e.define(e.freshName(h.Name), h.Sort, fmt.Sprintf("(store %s %s ((as const (Array Int %s)) %s))", st.get(h), r, q(s.SortOf(sl.Elem())), s.ZeroOf(sl.Elem()))))
		e.setVal(in, "Slice", fmt.Sprintf("(mkslice %s 0 %s %s)", r, ln, cp))
	case *ssa.MakeChan:
		e.vals[in] = e.alloc(st, in.Name())
	case *ssa.MakeClosure:
		r := e.alloc(st, in.Name())
		e.vals[in] = r
		// bindings (pointers to captured variables) escape into the closure; the
		// captured cells live in typed cell heaps and are havocked by calls that
		// may reach the closure body (mod-set analysis), so nothing else to do.
		for _, b := range in.Bindings {
			_ = e.term(b)
		}
	case *ssa.MakeInterface:
		x := e.term(in.X)
		so := s.SortOf(in.X.Type())
		tag := s.TagOf(in.X.Type())
		e.setVal(in, "Int", fmt.Sprintf("(%s %s %d)", s.BoxFn(so), x, tag))
		v := e.vals[in]
		e.fact(fmt.Sprintf("(and (= (tagOf %s) %d) (= (%s %s) %s) (not (= %s 0)))", v, tag, s.UnboxFn(so), v, x, v))
	case *ssa.ChangeInterface:
		e.setVal(in, "Int", e.term(in.X))
	case *ssa.ChangeType:
		e.setVal(in, s.SortOf(in.Type()), e.term(in.X))
		if r, ok := e.sliceRoots[in.X]; ok {
			e.sliceRoots[in] = r
		}
	case *ssa.Convert:
		from, to := s.SortOf(in.X.Type()), s.SortOf(in.Type())
		if from == to && from != "Slice" {
			if from == "Int" {
				// integer conversions: identity when the target is at least as wide
				if fb, ok := in.X.Type().Underlying().(*types.Basic); ok {
					if tb, ok2 := in.Type().Underlying().(*types.Basic); ok2 && fb.Info()&types.IsInteger != 0 && tb.Info()&types.IsInteger != 0 {
						e.setVal(in, to, e.term(in.X))
						return
					}
				}
				e.havocVal(in)
				return
			}
			e.setVal(in, to, e.term(in.X))
			return
		}
		e.havocVal(in)
		if to == "Slice" {
			// string -> []byte / []rune: fresh backing array
			v := e.vals[in]
			e.fact("(> (s.arr " + v + ") 0)")
			if from == "String" {
				if sl, ok := in.Type().Underlying().(*types.Slice); ok {
					if b, ok := sl.Elem().Underlying().(*types.Basic); ok && b.Kind() == types.Uint8 {
						e.fact("(= (s.len " + v + ") (str.len " + e.term(in.X) + "))")
						// the ghost view content(bytes) of the specs: []byte(s) holds s
						if _, ok := e.ctx.contracts.GFuncs["content"]; ok {
							e.ctx.declareUF("content", []string{"Slice"}, "String")
							if e.usedGhost != nil {
								e.usedGhost["content"] = true
							}
							e.fact("(= (" + q("g$content") + " " + v + ") " + e.term(in.X) + ")")
						}
					}
				}
			}
		}
	case *ssa.Field:
		x := e.term(in.X)
		stt := in.X.Type().Underlying().(*types.Struct)
		e.setVal(in, s.SortOf(in.Type()), "("+s.structSel(s.SortOf(in.X.Type()), stt.Field(in.Field).Name(), in.Field)+" "+x+")")
	case *ssa.Index:
		switch in.X.Type().Underlying().(type) {
		case *types.Basic: // string index
			x := e.term(in.X)
			idx := e.term(in.Index)
			e.safety("index", in.X.Name(), fmt.Sprintf("(and (>= %s 0) (< %s (str.len %s)))", idx, idx, x), in.Pos())
			e.setVal(in, "Int", fmt.Sprintf("(str.to_code (str.at %s %s))", x, idx))
		default:
			e.havocVal(in)
		}
	case *ssa.Lookup:
		e.encodeLookup(in, st)
	case *ssa.Slice:
		e.encodeSlice(in, st)
	case *ssa.Phi:
		return
	case *ssa.Extract:
		if comps, ok := e.tuples[in.Tuple]; ok && in.Index < len(comps) {
			e.vals[in] = comps[in.Index]
			return
		}
		e.havocVal(in)
	case *ssa.TypeAssert:
		e.encodeTypeAssert(in)
	case *ssa.Range:
		e.vals[in] = "0"
		h := e.doneHeap(in)
		ks := "Int"
		if m, ok := in.X.Type().Underlying().(*types.Map); ok {
			ks = s.SortOf(m.Key())
		}
		st.set(h, fmt.Sprintf("((as const (Array %s Bool)) false)", q(ks)))
	case *ssa.Next:
		e.encodeNext(in, st)
	case *ssa.MapUpdate:
		m := in.Map.Type().Underlying().(*types.Map)
		hp, hv, hl := s.MapHeaps(m)
		r, k, v := e.term(in.Map), e.term(in.Key), e.term(in.Value)
		e.safety("nilmap", in.Map.Name(), "(not (= "+r+" 0))", in.Pos())
		oldP := "(select " + st.get(hp) + " " + r + ")"
		oldL := "(select " + st.get(hl) + " " + r + ")"
		nl := e.define(e.freshName(hl.Name), hl.Sort, fmt.Sprintf("(store %s %s (ite (select %s %s) %s (+ %s 1)))", st.get(hl), r, oldP, k, oldL, oldL))
		np := e.define(e.freshName(hp.Name), hp.Sort, fmt.Sprintf("(store %s %s (store %s %s true))", st.get(hp), r, oldP, k))
		nv := e.define(e.freshName(hv.Name), hv.Sort, fmt.Sprintf("(store %s %s (store (select %s %s) %s %s))", st.get(hv), r, st.get(hv), r, k, v))
		st.set(hl, nl)
		st.set(hp, np)
		st.set(hv, nv)
	case *ssa.Call:
		e.encodeCall(in, in, st)
	case *ssa.Defer:
		e.deferred = append(e.deferred, in)
	case *ssa.Go:
		e.usesGo = true
		e.warn("goroutine launch read sequentially: the effects of the spawned call are applied at the go statement")
		e.encodeCall(in, nil, st)
	case *ssa.RunDefers:
		for i := len(e.deferred) - 1; i >= 0; i-- {
			d := e.deferred[i]
			dominates := d.Block().Dominates(e.curBlock)
			e.applyDeferred(d, st, dominates)
		}
	case *ssa.Return:
		if e.inl != nil {
			var res []string
			for _, r := range in.Results {
				res = append(res, e.term(r))
			}
			e.inl.rets = append(e.inl.rets, inlineRet{cond: e.en[e.curBlock], st: st.clone(), results: res})
			return
		}
		e.encodeReturn(in, st)
	case *ssa.Panic:
		if e.fn.Recover == nil {
			if e.fc == nil || e.fc.Opts["panics"] != "allowed" {
				n := e.count("panic")
				e.oblig("safety", fmt.Sprintf("safety.panic#%d", n), "false", "explicit panic reachable at "+posOf(e.fn, in.Pos()), nil)
			}
		}
	case *ssa.If, *ssa.Jump:
		return
	case *ssa.Send:
		// ghost record of the send: last value and number of sends per channel (blocking is not modelled)
		ct := in.Chan.Type().Underlying().(*types.Chan)
		hv, hn := s.ChanHeaps(ct.Elem())
		ch, v := e.term(in.Chan), e.term(in.X)
		st.set(hv, e.define(e.freshName(hv.Name), hv.Sort, fmt.Sprintf("(store %s %s %s)", st.get(hv), ch, v)))
		st.set(hn, e.define(e.freshName(hn.Name), hn.Sort, fmt.Sprintf("(store %s %s (+ (select %s %s) 1))", st.get(hn), ch, st.get(hn), ch)))
	case *ssa.Select:
		e.havocVal(in)
		e.warn("select statement: result havocked")
	case *ssa.SliceToArrayPointer, *ssa.MultiConvert:
		if v, ok := in.(ssa.Value); ok {
			e.havocVal(v)
		}
	default:
		if v, ok := in.(ssa.Value); ok {
			e.warn("unmodelled instruction %T: result havocked", in)
			e.havocVal(v)
		} else {
			e.warn("unmodelled instruction %T ignored", in)
		}
	}
}

func (e *Enc) encodeUnOp(in *ssa.UnOp, st *State) {
	s := e.sorts()
	switch in.Op {
	case token.MUL: // load
		if g, ok := in.X.(*ssa.Global); ok {
			if t, ok := e.constGlobal(g.String(), g.Type().Underlying().(*types.Pointer).Elem()); ok {
				e.vals[in] = t
				return
			}
		}
		pl := e.placeOf(in.X)
		if pl == nil {
			e.havocVal(in)
			return
		}
		if pl.kind == 0 || pl.kind == 2 {
			switch in.X.(type) {
			case *ssa.Alloc, *ssa.Global, *ssa.FreeVar:
			default:
				e.safety("nil", "*"+in.X.Name(), "(not (= "+pl.ref+" 0))", in.Pos())
			}
		}
		e.setVal(in, s.SortOf(in.Type()), e.loadPlace(pl, st))
		if pl.kind != 0 {
			e.typeFactsB(e.vals[in], in.Type(), st.boundOf(pl.heap))
		}
	case token.NOT:
		e.setVal(in, "Bool", "(not "+e.term(in.X)+")")
	case token.SUB:
		if s.SortOf(in.Type()) == "Int" {
			e.setVal(in, "Int", "(- "+e.term(in.X)+")")
		} else {
			e.havocVal(in)
		}
	case token.ARROW:
		if in.CommaOk {
			v := e.declare("v$"+in.Name()+"$0", s.SortOf(in.Type().(*types.Tuple).At(0).Type()))
			ok := e.declare("v$"+in.Name()+"$1", "Bool")
			e.tuples[in] = []string{v, ok}
			return
		}
		e.havocVal(in)
	default:
		e.havocVal(in)
	}
}

func (e *Enc) encodeBinOp(in *ssa.BinOp) {
	s := e.sorts()
	x, y := e.term(in.X), e.term(in.Y)
	xs := s.SortOf(in.X.Type())
	isNilConst := func(v ssa.Value) bool {
		c, ok := v.(*ssa.Const)
		return ok && c.Value == nil
	}
	switch in.Op {
	case token.EQL, token.NEQ:
		var t string
		if xs == "Slice" {
			if isNilConst(in.Y) {
				t = "(= (s.arr " + x + ") 0)"
			} else if isNilConst(in.X) {
				t = "(= (s.arr " + y + ") 0)"
			} else {
				t = "(= " + x + " " + y + ")"
			}
		} else {
			t = "(= " + x + " " + y + ")"
		}
		if in.Op == token.NEQ {
			t = "(not " + t + ")"
		}
		e.setVal(in, "Bool", t)
	case token.LSS, token.LEQ, token.GTR, token.GEQ:
		op := map[token.Token]string{token.LSS: "<", token.LEQ: "<=", token.GTR: ">", token.GEQ: ">="}[in.Op]
		if xs == "String" {
			switch in.Op {
			case token.LSS:
				e.setVal(in, "Bool", "(str.< "+x+" "+y+")")
			case token.LEQ:
				e.setVal(in, "Bool", "(str.<= "+x+" "+y+")")
			case token.GTR:
				e.setVal(in, "Bool", "(str.< "+y+" "+x+")")
			case token.GEQ:
				e.setVal(in, "Bool", "(str.<= "+y+" "+x+")")
			}
			return
		}
		if isFloat(in.X.Type()) {
			e.havocVal(in)
			return
		}
		e.setVal(in, "Bool", "("+op+" "+x+" "+y+")")
	case token.ADD:
		if xs == "String" {
			e.setVal(in, "String", "(str.++ "+x+" "+y+")")
			return
		}
		if isFloat(in.X.Type()) {
			e.havocVal(in)
			return
		}
		e.setVal(in, "Int", "(+ "+x+" "+y+")")
		e.overflow(in)
	case token.SUB:
		if isFloat(in.X.Type()) {
			e.havocVal(in)
			return
		}
		e.setVal(in, "Int", "(- "+x+" "+y+")")
		e.overflow(in)
	case token.MUL:
		if isFloat(in.X.Type()) {
			e.havocVal(in)
			return
		}
		e.setVal(in, "Int", "(* "+x+" "+y+")")
		e.overflow(in)
	case token.QUO:
		if isFloat(in.X.Type()) {
			e.havocVal(in)
			return
		}
		e.safety("div", in.Name(), "(not (= "+y+" 0))", in.Pos())
		e.setVal(in, "Int", "(godiv "+x+" "+y+")")
	case token.REM:
		e.safety("div", in.Name(), "(not (= "+y+" 0))", in.Pos())
		e.setVal(in, "Int", "(gomod "+x+" "+y+")")
	case token.LAND, token.LOR:
		e.havocVal(in)
	case token.AND, token.OR, token.XOR, token.SHL, token.SHR, token.AND_NOT:
		// bit operations: uninterpreted but functional (x & c is the same value wherever it is
		// computed), so that assumed contracts can speak about flag tests such as mode&ModeSymlink
		fn := map[token.Token]string{token.AND: "bitand", token.OR: "bitor", token.XOR: "bitxor", token.SHL: "bitshl", token.SHR: "bitshr", token.AND_NOT: "bitandnot"}[in.Op]
		if s.SortOf(in.Type()) != "Int" {
			e.havocVal(in)
			return
		}
		e.setVal(in, "Int", "("+fn+" "+x+" "+y+")")
	default:
		e.havocVal(in)
	}
}

func isConst(v ssa.Value) bool {
	_, ok := v.(*ssa.Const)
	return ok
}

func isFloat(t types.Type) bool {
	b, ok := t.Underlying().(*types.Basic)
	return ok && b.Info()&(types.IsFloat|types.IsComplex) != 0
}

// overflow obligations are generated only in functions marked `opt arith checked`.
func (e *Enc) overflow(in *ssa.BinOp) {
	if e.fc == nil || e.fc.Opts["arith"] != "checked" {
		return
	}
	b, ok := in.Type().Underlying().(*types.Basic)
	if !ok {
		return
	}
	var lo, hi string
	switch b.Kind() {
	case types.Int, types.Int64:
		lo, hi = "(- 9223372036854775808)", "9223372036854775807"
	case types.Int32:
		lo, hi = "(- 2147483648)", "2147483647"
	case types.Uint, types.Uint64:
		lo, hi = "0", "18446744073709551615"
	default:
		return
	}
	v := e.vals[in]
	e.safety("overflow", in.Name(), fmt.Sprintf("(and (>= %s %s) (<= %s %s))", v, lo, v, hi), in.Pos())
}

func (e *Enc) encodeLookup(in *ssa.Lookup, st *State) {
	s := e.sorts()
	switch u := in.X.Type().Underlying().(type) {
	case *types.Map:
		hp, hv, _ := s.MapHeaps(u)
		r, k := e.term(in.X), e.term(in.Index)
		// a nil map has no keys
		present := "(and (not (= " + r + " 0)) (select (select " + st.get(hp) + " " + r + ") " + k + "))"
		val := "(ite " + present + " (select (select " + st.get(hv) + " " + r + ") " + k + ") " + s.ZeroOf(u.Elem()) + ")"
		if in.CommaOk {
			v := e.define("v$"+in.Name()+"$0", s.SortOf(u.Elem()), val)
			ok := e.define("v$"+in.Name()+"$1", "Bool", present)
			e.tuples[in] = []string{v, ok}
			e.typeFactsB(v, u.Elem(), st.boundOf(hv))
			return
		}
		e.setVal(in, s.SortOf(u.Elem()), val)
		e.typeFactsB(e.vals[in], u.Elem(), st.boundOf(hv))
	default:
		// string index
		x, idx := e.term(in.X), e.term(in.Index)
		e.safety("index", in.X.Name(), fmt.Sprintf("(and (>= %s 0) (< %s (str.len %s)))", idx, idx, x), in.Pos())
		e.setVal(in, "Int", fmt.Sprintf("(str.to_code (str.at %s %s))", x, idx))
	}
}

func (e *Enc) encodeSlice(in *ssa.Slice, st *State) {
	x := e.term(in.X)
	lo := "0"
	if in.Low != nil {
		lo = e.term(in.Low)
	}
	switch u := in.X.Type().Underlying().(type) {
	case *types.Basic: // string
		hi := "(str.len " + x + ")"
		if in.High != nil {
			hi = e.term(in.High)
		}
		e.safety("slice", in.X.Name(), fmt.Sprintf("(and (<= 0 %s) (<= %s %s) (<= %s (str.len %s)))", lo, lo, hi, hi, x), in.Pos())
		e.setVal(in, "String", fmt.Sprintf("(str.substr %s %s (- %s %s))", x, lo, hi, lo))
	case *types.Slice:
		hi := "(s.len " + x + ")"
		if in.High != nil {
			hi = e.term(in.High)
		}
		e.safety("slice", in.X.Name(), fmt.Sprintf("(and (<= 0 %s) (<= %s %s) (<= %s (s.cap %s)))", lo, lo, hi, hi, x), in.Pos())
		cp := "(- (s.cap " + x + ") " + lo + ")"
		if in.Max != nil {
			cp = "(- " + e.term(in.Max) + " " + lo + ")"
		}
		e.setVal(in, "Slice", fmt.Sprintf("(mkslice (s.arr %s) (+ (s.off %s) %s) (- %s %s) %s)", x, x, lo, hi, lo, cp))
		if r, ok := e.sliceRoots[in.X]; ok {
			e.sliceRoots[in] = sliceRoot{root: r.root, shift: "(+ " + r.shift + " " + lo + ")"}
		} else {
			e.sliceRoots[in] = sliceRoot{root: x, shift: lo}
		}
	case *types.Pointer:
		a, ok := u.Elem().Underlying().(*types.Array)
		if !ok {
			e.havocVal(in)
			return
		}
		if _, isPlace := e.places[in.X]; isPlace {
			e.havocVal(in)
			return
		}
		hi := fmt.Sprint(a.Len())
		if in.High != nil {
			hi = e.term(in.High)
		}
		if in.Low != nil || in.High != nil {
			e.safety("slice", in.X.Name(), fmt.Sprintf("(and (<= 0 %s) (<= %s %s) (<= %s %d))", lo, lo, hi, hi, a.Len()), in.Pos())
		}
		e.setVal(in, "Slice", fmt.Sprintf("(mkslice %s %s (- %s %s) (- %d %s))", x, lo, hi, lo, a.Len(), lo))
	default:
		e.havocVal(in)
	}
}

func (e *Enc) encodeTypeAssert(in *ssa.TypeAssert) {
	s := e.sorts()
	x := e.term(in.X)
	var okT, valT string
	valSort := s.SortOf(in.AssertedType)
	if types.IsInterface(in.AssertedType) {
		// assertion to an interface type: succeeds for some non-nil values
		okc := e.declare(e.freshName("ifaceok$"+in.Name()), "Bool")
		e.fact("(=> " + okc + " (not (= " + x + " 0)))")
		if it, ok := in.AssertedType.Underlying().(*types.Interface); ok && it.NumMethods() == 0 {
			e.fact("(= " + okc + " (not (= " + x + " 0)))")
		}
		okT = okc
		valT = "(ite " + okc + " " + x + " 0)"
	} else {
		tag := s.TagOf(in.AssertedType)
		okT = fmt.Sprintf("(= (tagOf %s) %d)", x, tag)
		valT = "(ite " + okT + " (" + s.UnboxFn(valSort) + " " + x + ") " + s.ZeroOf(in.AssertedType) + ")"
	}
	if in.CommaOk {
		v := e.define("v$"+in.Name()+"$0", valSort, valT)
		ok := e.define("v$"+in.Name()+"$1", "Bool", okT)
		e.tuples[in] = []string{v, ok}
		e.typeFacts(v, in.AssertedType, e.cur())
		return
	}
	e.safety("assert", shortType(in.AssertedType), okT, in.Pos())
	e.setVal(in, valSort, valT)
	e.typeFacts(e.vals[in], in.AssertedType, e.cur())
}

func (e *Enc) encodeNext(in *ssa.Next, st *State) {
	s := e.sorts()
	r, isRange := in.Iter.(*ssa.Range)
	ok := e.declare("v$"+in.Name()+"$0", "Bool")
	if in.IsString || !isRange {
		k := e.declare("v$"+in.Name()+"$1", "Int")
		v := e.declare("v$"+in.Name()+"$2", "Int")
		e.tuples[in] = []string{ok, k, v}
		if isRange {
			x := e.term(r.X)
			e.fact(fmt.Sprintf("(=> %s (and (>= %s 0) (< %s (str.len %s)) (= (str.len %s) (str.len %s))))", ok, k, k, x, x, x))
			e.fact(fmt.Sprintf("(=> (= (str.len %s) 0) (not %s))", x, ok))
		}
		return
	}
	m := r.X.Type().Underlying().(*types.Map)
	hp, hv, _ := s.MapHeaps(m)
	mref := e.term(r.X)
	k := e.declare("v$"+in.Name()+"$1", s.SortOf(m.Key()))
	dh := e.doneHeap(r)
	done := st.get(dh)
	pres := "(select " + st.get(hp) + " " + mref + ")"
	v := e.define("v$"+in.Name()+"$2", s.SortOf(m.Elem()), "(select (select "+st.get(hv)+" "+mref+") "+k+")")
	e.tuples[in] = []string{ok, k, v}
	e.fact(fmt.Sprintf("(=> %s (and (select %s %s) (not (select %s %s)) (not (= %s 0))))", ok, pres, k, done, k, mref))
	qk := "qk!" + in.Name()
	e.fact(fmt.Sprintf("(=> (not %s) (forall ((%s %s)) (=> (select %s %s) (select %s %s))))", ok, qk, q(s.SortOf(m.Key())), pres, qk, done, qk))
	e.typeFacts(v, m.Elem(), st)
	nd := e.define(e.freshName(dh.Name), dh.Sort, fmt.Sprintf("(ite %s (store %s %s true) %s)", ok, done, k, done))
	st.set(dh, nd)
}

func (e *Enc) encodeReturn(in *ssa.Return, st *State) {
	e.retOrd++
	if e.fc == nil {
		return
	}
	if len(e.fc.Ensures) > 0 {
		// reachability twin: the assumptions collected on the way to this return must be satisfiable
		o := e.oblig("vacuity", fmt.Sprintf("reachable@return#%d", e.retOrd), "false", "the return at "+posOf(e.fn, in.Pos())+" is reachable under the assumptions made on the way (otherwise everything proved there is vacuous)", nil)
		o.Expect = "sat"
	}
	res := e.resultVars(in)
	for i, cl := range e.fc.Ensures {
		retBlock := in.Block()
		if cl.At != "" && !strings.Contains(e.ctx.sourceLine(e.fn, in.Pos()), cl.At) {
			continue
		}
		if cl.Before != "" {
			anchor := e.ctx.firstLineContaining(e.fn, cl.Before)
			if anchor == 0 {
				panic(fmt.Errorf("contract error (%s ensures#%d): no line of the function contains %q", e.key, i+1, cl.Before))
			}
			if !in.Pos().IsValid() || e.fn.Prog.Fset.Position(in.Pos()).Line >= anchor {
				continue
			}
		}
		if cl.At != "" {
			if e.ensuresAtSeen == nil {
				e.ensuresAtSeen = map[int]bool{}
			}
			e.ensuresAtSeen[i] = true
		}
		label := cl.Label
		if label == "" {
			label = fmt.Sprint(i + 1)
		}
		// one obligation per conjunct (of the clause, or of the consequent of an implication)
		parts := splitEnsures(cl.E)
		for pi, pe := range parts {
			c := e.evalCtx(st, e.entry, mergeVars(res, e.params), func(name string, rs *State) (TV, bool) { return e.resolveLocal(name, retBlock, rs) }, fmt.Sprintf("%s ensures#%d", e.key, i+1))
			goal := c.boolTerm(pe)
			name := label
			src := cl.Src
			if len(parts) > 1 {
				name = fmt.Sprintf("%s.%d", label, pi+1)
				src = pe.String()
			}
			e.oblig("post", fmt.Sprintf("post[%s]@return#%d", name, e.retOrd), goal, src+"   [at the return in "+posOf(e.fn, in.Pos())+"]", cl)
		}
	}
	if e.fc.HasMod {
		// declared frame: every relevant heap outside `modifies` is unchanged
		decl := map[string]bool{}
		for _, m := range e.fc.Modifies {
			decl[e.ctx.heapNameOfModifies(m)] = true
		}
		var names []string
		for k := range st.m {
			names = append(names, k)
		}
		sort.Strings(names)
		for _, k := range names {
			h := e.heapByName(k)
			if decl[k] || h.Kind == HAlloc || strings.HasPrefix(k, "D$") {
				continue
			}
			if st.m[k] == e.entry.get(h) {
				continue
			}
			if h.Kind != HGhost {
				// program heaps: only ghost state and explicitly listed heaps are framed by declaration;
				// program heaps use the computed mod-set at call sites
				continue
			}
			e.oblig("post", fmt.Sprintf("frame[%s]@return#%d", k, e.retOrd), "(= "+st.m[k]+" "+e.entry.get(h)+")", "modifies clause does not list "+k, nil)
		}
	}
}

func mergeVars(a, b map[string]TV) map[string]TV {
	m := map[string]TV{}
	for k, v := range a {
		m[k] = v
	}
	for k, v := range b {
		m[k] = v
	}
	return m
}

// resultVars binds result names for a return instruction.
func (e *Enc) resultVars(in *ssa.Return) map[string]TV {
	s := e.sorts()
	res := map[string]TV{}
	sig := e.fn.Signature
	n := sig.Results().Len()
	for i := 0; i < n && i < len(in.Results); i++ {
		rv := sig.Results().At(i)
		tv := TV{Term: e.term(in.Results[i]), Sort: s.SortOf(rv.Type()), T: rv.Type()}
		if rv.Name() != "" && rv.Name() != "_" {
			res[rv.Name()] = tv
		}
		res[fmt.Sprintf("result%d", i)] = tv
		if n == 1 {
			res["result"] = tv
		}
		if i == n-1 && isErrorType(rv.Type()) {
			if _, taken := res["err"]; !taken {
				res["err"] = tv
			}
		}
		if i == 0 && n == 2 {
			if _, taken := res["result"]; !taken {
				res["result"] = tv
			}
		}
	}
	return res
}

func isErrorType(t types.Type) bool {
	return types.Identical(t, types.Universe.Lookup("error").Type())
}

// findLocalAllocs lists the allocations of this function whose reference never
// escapes (it is only dereferenced, indexed, ranged over, measured or returned).
func (e *Enc) findLocalAllocs() {
	e.localAllocs = nil
	for _, b := range e.fn.Blocks {
		for _, in := range b.Instrs {
			v, ok := in.(ssa.Value)
			if !ok {
				continue
			}
			la := &localAlloc{v: v, block: b, heaps: map[string]bool{}}
			switch x := in.(type) {
			case *ssa.Alloc:
				el := x.Type().Underlying().(*types.Pointer).Elem()
				for _, h := range e.ctx.mods.heapsOfType(el) {
					la.heaps[h] = true
				}
			case *ssa.MakeMap:
				p, vv, l := mapHeapNames(x.Type().Underlying().(*types.Map))
				la.heaps[p], la.heaps[vv], la.heaps[l] = true, true, true
			case *ssa.MakeSlice:
				la.heaps[elemHeapName(x.Type().Underlying().(*types.Slice).Elem())] = true
				la.isSlice = true
			default:
				continue
			}
			if escapes(v, map[ssa.Value]bool{}) {
				continue
			}
			e.localAllocs = append(e.localAllocs, la)
		}
	}
}

func escapes(v ssa.Value, seen map[ssa.Value]bool) bool {
	if seen[v] {
		return false
	}
	seen[v] = true
	refs := v.Referrers()
	if refs == nil {
		return true
	}
	for _, r := range *refs {
		switch x := r.(type) {
		case *ssa.DebugRef, *ssa.Return:
		case *ssa.FieldAddr:
			if x.X != v {
				return true
			}
			if escapes(x, seen) {
				return true
			}
		case *ssa.IndexAddr:
			if x.X != v {
				return true
			}
			if escapes(x, seen) {
				return true
			}
		case *ssa.UnOp: // load through the pointer
		case *ssa.Store:
			if x.Val == v {
				return true
			}
		case *ssa.MapUpdate:
			if x.Map != v {
				return true
			}
		case *ssa.Lookup:
			if x.X != v {
				return true
			}
		case *ssa.Range:
		case *ssa.Slice:
			if escapes(x, seen) {
				return true
			}
		case *ssa.ChangeType:
			if escapes(x, seen) {
				return true
			}
		case *ssa.Call:
			if b, ok := x.Call.Value.(*ssa.Builtin); ok {
				switch b.Name() {
				case "len", "cap", "delete":
					continue
				}
			}
			return true
		default:
			return true
		}
	}
	return false
}

// splitEnsures splits `A && B` into [A, B] and `P ==> (A && B)` into [P ==> A, P ==> B].
func splitEnsures(e Expr) []Expr {
	if b, ok := e.(*EBinary); ok {
		switch b.Op {
		case "&&":
			return append(splitEnsures(b.X), splitEnsures(b.Y)...)
		case "==>":
			var out []Expr
			for _, c := range splitEnsures(b.Y) {
				out = append(out, &EBinary{"==>", b.X, c})
			}
			return out
		}
	}
	return []Expr{e}
}

// ---- encoding a closure's body in place of a direct (or deferred) call to it

type inlineRet struct {
	cond    string
	st      *State
	results []string
}

type inlineFrame struct {
	prefix string
	guard  string
	st     *State
	rets   []inlineRet
}

// canInline: a closure made in the function under proof, without a contract of its own, with an
// acyclic body, no defers, no recover and no further closures — the deferred clean-up idiom.
func (e *Enc) canInline(fn *ssa.Function) bool {
	if e.inl != nil || fn == nil || len(fn.Blocks) == 0 || len(fn.Blocks) > 40 || fn == e.fn {
		return false
	}
	if fc := e.ctx.contracts.Funcs[funcKey(fn)]; fc != nil {
		return false
	}
	if fn.Recover != nil {
		return false
	}
	for _, b := range fn.Blocks {
		for _, s := range b.Succs {
			if s.Dominates(b) {
				return false
			}
		}
		for _, in := range b.Instrs {
			switch in.(type) {
			case *ssa.Defer, *ssa.Go, *ssa.Select, *ssa.MakeClosure, *ssa.RunDefers:
				return false
			}
		}
	}
	return true
}

// inlineClosure encodes fn's blocks starting from the caller's current state and leaves the
// caller's state as the merge of fn's returns. args are the actual parameters, bindings the
// captured cells. The result terms (one per result) are returned.
func (e *Enc) inlineClosure(fn *ssa.Function, args []ssa.Value, bindings []ssa.Value, st *State) ([]string, bool) {
	if len(args) != len(fn.Params) || len(bindings) != len(fn.FreeVars) {
		return nil, false
	}
	argTerms := make([]string, len(args))
	for i, a := range args {
		argTerms[i] = e.term(a)
	}
	bindTerms := make([]string, len(bindings))
	for i, b := range bindings {
		bindTerms[i] = e.term(b)
	}
	guard := "true"
	if e.curBlock != nil {
		guard = e.en[e.curBlock]
	}
	e.ninlined++
	frame := &inlineFrame{prefix: fmt.Sprintf("i%d$", e.ninlined), guard: guard, st: st}
	saveFn, saveBlock, saveDeferred := e.fn, e.curBlock, e.deferred
	e.fn = fn
	e.inl = frame
	e.deferred = nil
	for i, p := range fn.Params {
		e.vals[p] = argTerms[i]
	}
	for i, fv := range fn.FreeVars {
		e.vals[fv] = bindTerms[i]
		if pl, ok := e.places[bindings[i]]; ok {
			e.places[fv] = pl
		}
	}
	for _, b := range e.topoOrder() {
		e.encodeBlock(b)
	}
	e.fn, e.curBlock, e.deferred, e.inl = saveFn, saveBlock, saveDeferred, nil
	e.warn("the body of closure %s is encoded in place of the call to it", shortKey(funcKey(fn)))
	if len(frame.rets) == 0 {
		// never returns normally: nothing after the call is reachable
		e.fact("false")
		return nil, true
	}
	var edges []edge
	for _, r := range frame.rets {
		edges = append(edges, edge{cond: r.cond, st: r.st})
	}
	merged := e.mergeStatesN(frame.prefix+"ret", edges)
	st.m, st.b, st.bdef = merged.m, merged.b, merged.bdef
	var results []string
	for i := 0; i < fn.Signature.Results().Len(); i++ {
		term := frame.rets[len(frame.rets)-1].results[i]
		for j := len(frame.rets) - 2; j >= 0; j-- {
			term = "(ite " + frame.rets[j].cond + " " + frame.rets[j].results[i] + " " + term + ")"
		}
		results = append(results, term)
	}
	return results, true
}

// isUpCounter: phi at the head of loop li whose value is the constant 0 on every entry edge and
// phi+1 on every back edge.
func isUpCounter(li *loopInfo, p *ssa.Phi) bool {
	if b, ok := p.Type().Underlying().(*types.Basic); !ok || b.Info()&types.IsInteger == 0 {
		return false
	}
	zeroIn, stepBack := false, false
	for i, ed := range p.Edges {
		if i >= len(li.head.Preds) {
			return false
		}
		if li.body[li.head.Preds[i]] {
			add, ok := ed.(*ssa.BinOp)
			if !ok || add.Op != token.ADD || add.X != ssa.Value(p) {
				return false
			}
			c, ok := add.Y.(*ssa.Const)
			if !ok || c.Value == nil || c.Value.ExactString() != "1" {
				return false
			}
			stepBack = true
			continue
		}
		c, ok := ed.(*ssa.Const)
		if !ok || c.Value == nil || c.Value.ExactString() != "0" {
			return false
		}
		zeroIn = true
	}
	return zeroIn && stepBack
}
