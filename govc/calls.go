package main

// Call rule, builtins, deferred calls.

import (
	"fmt"
	"go/types"
	"sort"
	"strings"

	"golang.org/x/tools/go/ssa"
)

// funcKey is the contract key of an SSA function.
func funcKey(fn *ssa.Function) string {
	if fn == nil {
		return ""
	}
	if fn.Parent() != nil {
		// anonymous function: parentKey$N
		name := fn.Name()
		if i := strings.LastIndex(name, "$"); i >= 0 {
			return funcKey(fn.Parent()) + name[i:]
		}
		return funcKey(fn.Parent()) + "$" + name
	}
	pkgPath := ""
	if fn.Pkg != nil {
		pkgPath = fn.Pkg.Pkg.Path()
	} else if fn.Object() != nil && fn.Object().Pkg() != nil {
		pkgPath = fn.Object().Pkg().Path()
	}
	if recv := fn.Signature.Recv(); recv != nil {
		return pkgPath + "." + recvString(recv.Type()) + "." + fn.Name()
	}
	if o := fn.Origin(); o != nil && o != fn {
		return funcKey(o)
	}
	return pkgPath + "." + fn.Name()
}

func recvString(t types.Type) string {
	if p, ok := t.(*types.Pointer); ok {
		if n := namedOf(p.Elem()); n != nil {
			return "(*" + n.Obj().Name() + ")"
		}
	}
	if n := namedOf(t); n != nil {
		return n.Obj().Name()
	}
	return t.String()
}

// ifaceKey is the contract key of an interface method.
func ifaceKey(recv types.Type, m *types.Func) []string {
	var keys []string
	if n := namedOf(recv); n != nil && n.Obj().Pkg() != nil {
		keys = append(keys, n.Obj().Pkg().Path()+"."+n.Obj().Name()+"."+m.Name())
	}
	// the interface that declares the method (embedded interfaces)
	if sig, ok := m.Type().(*types.Signature); ok && sig.Recv() != nil {
		if n := namedOf(sig.Recv().Type()); n != nil && n.Obj().Pkg() != nil {
			k := n.Obj().Pkg().Path() + "." + n.Obj().Name() + "." + m.Name()
			if len(keys) == 0 || keys[0] != k {
				keys = append(keys, k)
			}
		}
	}
	if n := namedOf(recv); (n == nil || n.Obj().Pkg() == nil) && m.Pkg() == nil {
		keys = append(keys, "error."+m.Name())
	}
	return keys
}

func shortKey(key string) string {
	if i := strings.LastIndex(key, "/"); i >= 0 {
		return key[i+1:]
	}
	return key
}

type callTarget struct {
	key      string
	contract *FuncContract
	static   *ssa.Function
	sig      *types.Signature
	args     []ssa.Value // including receiver first when there is one
	desc     string
}

func (e *Enc) resolveCall(common *ssa.CallCommon) *callTarget {
	ct := &callTarget{}
	if common.IsInvoke() {
		ct.sig = common.Method.Type().(*types.Signature)
		ct.args = append([]ssa.Value{common.Value}, common.Args...)
		for _, k := range ifaceKey(common.Value.Type(), common.Method) {
			if c := e.ctx.contracts.Funcs[k]; c != nil {
				ct.key, ct.contract = k, c
				break
			}
			if ct.key == "" {
				ct.key = k
			}
		}
		if ct.key == "" {
			ct.key = "iface." + common.Method.Name()
		}
		ct.desc = ct.key
		return ct
	}
	ct.sig = common.Signature()
	ct.args = common.Args
	if sc := common.StaticCallee(); sc != nil {
		ct.static = sc
		ct.key = funcKey(sc)
		ct.contract = e.ctx.contracts.Funcs[ct.key]
		ct.desc = ct.key
		return ct
	}
	ct.key = ""
	ct.desc = "dynamic call " + common.Value.Name()
	return ct
}

// paramNames returns the names under which a contract refers to receiver and parameters.
func paramNames(sig *types.Signature, static *ssa.Function, hasRecvArg bool) []string {
	var names []string
	if static != nil && len(static.Params) > 0 {
		for _, p := range static.Params {
			names = append(names, p.Name())
		}
		return names
	}
	if hasRecvArg {
		n := "recv"
		if sig.Recv() != nil && sig.Recv().Name() != "" && sig.Recv().Name() != "_" {
			n = sig.Recv().Name()
		}
		names = append(names, n)
	}
	for i := 0; i < sig.Params().Len(); i++ {
		n := sig.Params().At(i).Name()
		if n == "" || n == "_" {
			n = fmt.Sprintf("p%d", i)
		}
		names = append(names, n)
	}
	return names
}

func bindResultNames(sig *types.Signature, tvs []TV) map[string]TV {
	res := map[string]TV{}
	n := sig.Results().Len()
	for i := 0; i < n && i < len(tvs); i++ {
		rv := sig.Results().At(i)
		if rv.Name() != "" && rv.Name() != "_" {
			res[rv.Name()] = tvs[i]
		}
		res[fmt.Sprintf("result%d", i)] = tvs[i]
		if n == 1 {
			res["result"] = tvs[i]
		}
		if i == n-1 && isErrorType(rv.Type()) {
			if _, taken := res["err"]; !taken {
				res["err"] = tvs[i]
			}
		}
		if i == 0 && n == 2 {
			if _, taken := res["result"]; !taken {
				res["result"] = tvs[i]
			}
		}
	}
	return res
}

// havocMods replaces the state of every relevant heap the callee may write.
func (e *Enc) havocMods(st *State, mods ModSet, label string) {
	if e.relevant == nil {
		return
	}
	// "objects that exist now keep their content" (the frame of a heap only written on fresh
	// objects) is usable only if the references held by existing objects are known to denote
	// existing objects: state that for the heap versions current at the call
	for _, kind := range mods.m {
		if kind == ModFresh {
			e.emitBoundFacts(st)
			break
		}
	}
	names := make([]string, 0, len(e.relevant))
	for k := range e.relevant {
		names = append(names, k)
	}
	sort.Strings(names)
	for _, k := range names {
		h := e.relevant[k]
		if strings.HasPrefix(k, "D$") {
			continue
		}
		kind, ok := mods.Get(k)
		if _, esc := e.escaped[k]; esc {
			kind, ok = ModAny, true
		}
		if false && !ok && mods.opaque && h.Kind != HGhost && h.Kind != HAlloc {
			// code without a body may allocate objects and initialise their fields in any heap:
			// objects that existed before the call keep their content, fresh ones are unknown
			kind, ok = ModFresh, true
		}
		if !ok {
			continue
		}
		prev := st.get(h)
		if h.Kind == HAlloc {
			nv := e.declare(e.freshName(label+"$alloc"), "Int")
			st.set(h, nv)
			e.fact("(>= " + nv + " " + prev + ")")
			continue
		}
		nv := e.declare(e.freshName(label+"$"+k), h.Sort)
		st.set(h, nv)
		e.sliceHeapWF(h, nv)
		// objects allocated by this function that never escaped cannot be reached by the callee
		for _, la := range e.localAllocs {
			if !la.heaps[k] || la.block == nil || e.curBlock == nil || !la.block.Dominates(e.curBlock) {
				continue
			}
			t, ok := e.vals[la.v]
			if !ok {
				continue
			}
			if la.isSlice {
				t = "(s.arr " + t + ")"
			}
			e.fact("(= (select " + nv + " " + t + ") (select " + prev + " " + t + "))")
		}
		if kind == ModFresh && strings.HasPrefix(h.Sort, "(Array Int") {
			// only objects allocated by the callee are written
			qv := "qr!" + fmt.Sprint(e.nfresh)
			e.fact(fmt.Sprintf("(forall ((%s Int)) (! (=> (<= %s %s) (= (select %s %s) (select %s %s))) :pattern ((select %s %s))))",
				qv, qv, e.preAlloc(st, prev), nv, qv, prev, qv, nv, qv))
		}
	}
	if mods.opaque {
		st.resetBounds()
	}
}

// preAlloc returns the allocation counter before the call being processed. The
// counter itself is havocked first (name order: "$alloc" sorts before letters),
// so its previous value is recorded by the caller.
func (e *Enc) preAlloc(st *State, _ string) string { return e.lastPreAlloc }

func (e *Enc) encodeCall(instr ssa.CallInstruction, v *ssa.Call, st *State) {
	common := instr.Common()
	if b, ok := common.Value.(*ssa.Builtin); ok {
		e.encodeBuiltin(b, common, v, st, instr)
		return
	}
	if e.encodeSortCall(common, st) {
		return
	}
	s := e.sorts()
	ct := e.resolveCall(common)
	sig := ct.sig
	if mc, ok := common.Value.(*ssa.MakeClosure); ok && ct.contract == nil {
		if fn, ok := mc.Fn.(*ssa.Function); ok && e.canInline(fn) {
			if res, ok := e.inlineClosure(fn, common.Args, mc.Bindings, st); ok {
				if v != nil {
					switch len(res) {
					case 0:
					case 1:
						e.setVal(v, s.SortOf(v.Type()), res[0])
					default:
						var ts []string
						for i, r := range res {
							ts = append(ts, e.define(fmt.Sprintf("v$%s$%d", v.Name(), i), s.SortOf(v.Type().(*types.Tuple).At(i).Type()), r))
						}
						e.tuples[v] = ts
					}
				}
				return
			}
		}
	}
	e.curClosureResolve = e.closureResolver(common.Value)
	defer func() { e.curClosureResolve = nil }()
	label := "call"
	if v != nil {
		label = "c$" + v.Name()
	}

	// argument terms
	var args []TV
	for _, a := range ct.args {
		args = append(args, TV{Term: e.term(a), Sort: s.SortOf(a.Type()), T: a.Type()})
	}
	if common.IsInvoke() {
		e.safety("nil", "invoke."+common.Method.Name(), "(not (= "+args[0].Term+" 0))", instr.Pos())
	}

	cc := ct.contract
	ord := 0
	if ct.key != "" {
		e.callOrd[ct.key]++
		ord = e.callOrd[ct.key]
	}
	vars := map[string]TV{}
	if cc != nil {
		hasRecv := common.IsInvoke() || (ct.static != nil && ct.static.Signature.Recv() != nil)
		names := paramNames(sig, ct.static, hasRecv)
		if ct.static != nil && len(ct.static.FreeVars) > 0 {
			// closures: parameters only
		}
		for i, n := range names {
			if i < len(args) {
				vars[n] = args[i]
			}
		}
		if hasRecv && len(args) > 0 {
			if _, taken := vars["recv"]; !taken {
				vars["recv"] = args[0]
			}
		}
		// variadic parameters arrive as a slice already in SSA
		for i, cl := range cc.Requires {
			lab := cl.Label
			if lab == "" {
				lab = fmt.Sprint(i + 1)
			}
			// [caller=X]: the clause is part of a protocol that only the function(s) X take part in
			scoped, inScope := false, false
			for t := range cl.Tags {
				if strings.HasPrefix(t, "pkg:caller:") {
					scoped = true
					if strings.Contains(e.key, strings.TrimPrefix(t, "pkg:caller:")) {
						inScope = true
					}
				}
			}
			if scoped && !inScope {
				continue
			}
			// one obligation per top-level conjunct: better diagnostics, smaller queries
			parts := splitConj(cl.E)
			for pi, pe := range parts {
				c := e.calleeCtx(cc, st, nil, vars, fmt.Sprintf("%s requires#%d at call in %s", ct.key, i+1, e.key))
				goal := c.boolTerm(pe)
				name := lab
				if len(parts) > 1 {
					name = fmt.Sprintf("%s.%d", lab, pi+1)
				}
				po := e.oblig("pre", fmt.Sprintf("pre[%s]@call#%d(%s)", name, ord, shortKey(ct.key)), goal, pe.String()+"   [precondition of "+ct.key+" at "+posOf(e.fn, instr.Pos())+"]", nil)
				// a property tag on the callee's requires clause makes the call-site obligation count for that property too
				for t := range cl.Tags {
					if !strings.HasPrefix(t, "pkg:") && !hasProp(po.Props, t) {
						po.Props = append(po.Props, t)
					}
				}
				sort.Strings(po.Props)
				e.fact(goal)
			}
		}
		if cc.Assumed || cc.Trusted {
			e.assumed[ct.key] = true
		}
	} else {
		e.unknown[ct.desc] = true
	}

	// frame
	oldSt := st.clone()
	e.lastPreAlloc = st.get(allocHeap)
	pure := cc != nil && cc.Pure
	if !pure {
		mods := e.ctx.callMods(e, common, ct)
		e.havocMods(st, mods, label)
	}

	// results
	var resTV []TV
	nres := sig.Results().Len()
	if v != nil {
		switch nres {
		case 0:
		case 1:
			t := e.havocVal(v)
			resTV = append(resTV, TV{Term: t, Sort: s.SortOf(v.Type()), T: v.Type()})
		default:
			var comps []string
			for i := 0; i < nres; i++ {
				rt := sig.Results().At(i).Type()
				t := e.declare(fmt.Sprintf("v$%s$%d", v.Name(), i), s.SortOf(rt))
				e.typeFacts(t, rt, st)
				comps = append(comps, t)
				resTV = append(resTV, TV{Term: t, Sort: s.SortOf(rt), T: rt})
			}
			e.tuples[v] = comps
		}
	} else {
		for i := 0; i < nres; i++ {
			rt := sig.Results().At(i).Type()
			t := e.declare(e.freshName("res"), s.SortOf(rt))
			resTV = append(resTV, TV{Term: t, Sort: s.SortOf(rt), T: rt})
		}
	}

	if cc != nil {
		rv := bindResultNames(sig, resTV)
		all := mergeVars(rv, vars)
		for i, cl := range cc.Ensures {
			c := e.calleeCtx(cc, st, oldSt, all, fmt.Sprintf("%s ensures#%d at call in %s", ct.key, i+1, e.key))
			e.fact(c.boolTerm(cl.E))
		}
		for i, cl := range cc.Marks {
			c := e.calleeCtx(cc, st, oldSt, all, fmt.Sprintf("%s marks#%d at call in %s", ct.key, i+1, e.key))
			e.fact(c.boolTerm(cl.E))
			e.assumed["marker (free postcondition) of "+ct.key+": "+cl.Src] = true
		}
	}
}

func (e *Enc) calleeCtx(cc *FuncContract, st, old *State, vars map[string]TV, where string) *EvalCtx {
	pkg := e.ctx.pkgByPath(cc.Pkg)
	return &EvalCtx{enc: e, pkg: pkg, pkgPath: cc.Pkg, st: st, old: old, vars: vars, resolve: e.curClosureResolve, where: where}
}

// closureResolver: the callee is a closure made in this function; the names of its captured
// variables in its contract denote the captured cells, read in the state of evaluation.
func (e *Enc) closureResolver(v ssa.Value) func(string, *State) (TV, bool) {
	for {
		if ct, ok := v.(*ssa.ChangeType); ok {
			v = ct.X
			continue
		}
		break
	}
	mc, ok := v.(*ssa.MakeClosure)
	if !ok {
		return nil
	}
	fn, ok := mc.Fn.(*ssa.Function)
	if !ok {
		return nil
	}
	return func(name string, st *State) (TV, bool) {
		for i, fv := range fn.FreeVars {
			if fv.Name() != name || i >= len(mc.Bindings) {
				continue
			}
			pl := e.placeOf(mc.Bindings[i])
			if pl == nil {
				return TV{}, false
			}
			return TV{Term: e.loadPlace(pl, st), Sort: e.sorts().SortOf(pl.T), T: pl.T}, true
		}
		return TV{}, false
	}
}

func (e *Enc) applyDeferred(d *ssa.Defer, st *State, dominates bool) {
	common := d.Common()
	if _, ok := common.Value.(*ssa.Builtin); ok {
		return
	}
	ct := e.resolveCall(common)
	if ct.static != nil && callsRecover(ct.static) {
		// the recover idiom: `defer func() { if r := recover(); r != nil { ... } }()` does nothing on
		// a normal return (assumption, listed); panicking paths are not covered by postconditions
		e.assumed["deferred recover() handler "+ct.key+" has no effect on normal returns"] = true
		return
	}
	if mc, ok := common.Value.(*ssa.MakeClosure); ok && dominates && ct.contract == nil {
		if fn, ok := mc.Fn.(*ssa.Function); ok && e.canInline(fn) {
			if _, ok := e.inlineClosure(fn, common.Args, mc.Bindings, st); ok {
				return
			}
		}
	}
	e.lastPreAlloc = st.get(allocHeap)
	oldSt := st.clone()
	if ct.contract == nil || !ct.contract.Pure {
		e.havocMods(st, e.ctx.callMods(e, common, ct), "defer")
	}
	e.curClosureResolve = e.closureResolver(common.Value)
	defer func() { e.curClosureResolve = nil }()
	if ct.contract != nil && dominates {
		s := e.sorts()
		vars := map[string]TV{}
		hasRecv := common.IsInvoke() || (ct.static != nil && ct.static.Signature.Recv() != nil)
		names := paramNames(ct.sig, ct.static, hasRecv)
		for i, n := range names {
			if i < len(ct.args) {
				a := ct.args[i]
				vars[n] = TV{Term: e.term(a), Sort: s.SortOf(a.Type()), T: a.Type()}
			}
		}
		if ct.sig.Results().Len() == 0 {
			for i, cl := range ct.contract.Ensures {
				c := e.calleeCtx(ct.contract, st, oldSt, vars, fmt.Sprintf("%s ensures#%d (deferred) in %s", ct.key, i+1, e.key))
				e.fact(c.boolTerm(cl.E))
			}
		}
	}
}

// ---------------------------------------------------------------- builtins

func (e *Enc) encodeBuiltin(b *ssa.Builtin, common *ssa.CallCommon, v *ssa.Call, st *State, instr ssa.CallInstruction) {
	s := e.sorts()
	args := common.Args
	setv := func(sortName, term string) {
		if v != nil {
			e.setVal(v, sortName, term)
		}
	}
	switch b.Name() {
	case "len":
		x := e.term(args[0])
		switch u := args[0].Type().Underlying().(type) {
		case *types.Basic:
			setv("Int", "(str.len "+x+")")
		case *types.Slice:
			setv("Int", "(s.len "+x+")")
		case *types.Map:
			hp, _, hl := s.MapHeaps(u)
			setv("Int", "(select "+st.get(hl)+" "+x+")")
			if v != nil {
				e.fact("(>= " + e.vals[v] + " 0)")
				e.fact("(=> (= " + x + " 0) (= " + e.vals[v] + " 0))")
				// an empty map has no keys
				qk := "qk!" + v.Name()
				pres := "(select " + st.get(hp) + " " + x + ")"
				e.fact(fmt.Sprintf("(=> (= %s 0) (forall ((%s %s)) (! (not (select %s %s)) :pattern ((select %s %s)))))", e.vals[v], qk, q(s.SortOf(u.Key())), pres, qk, pres, qk))
			}
		case *types.Pointer:
			if a, ok := u.Elem().Underlying().(*types.Array); ok {
				setv("Int", fmt.Sprint(a.Len()))
				return
			}
			e.havocVal(v)
		case *types.Array:
			setv("Int", fmt.Sprint(u.Len()))
		default:
			if v != nil {
				e.havocVal(v)
				e.fact("(>= " + e.vals[v] + " 0)")
			}
		}
	case "cap":
		x := e.term(args[0])
		if _, ok := args[0].Type().Underlying().(*types.Slice); ok {
			setv("Int", "(s.cap "+x+")")
			return
		}
		if v != nil {
			e.havocVal(v)
		}
	case "append":
		e.encodeAppend(args, v, st)
	case "copy":
		e.encodeCopy(args, v, st)
	case "delete":
		m := args[0].Type().Underlying().(*types.Map)
		hp, _, hl := s.MapHeaps(m)
		r, k := e.term(args[0]), e.term(args[1])
		oldP := "(select " + st.get(hp) + " " + r + ")"
		oldL := "(select " + st.get(hl) + " " + r + ")"
		// deleting from a nil map is a no-op
		nl := e.define(e.freshName(hl.Name), hl.Sort, fmt.Sprintf("(ite (= %s 0) %s (store %s %s (ite (select %s %s) (- %s 1) %s)))", r, st.get(hl), st.get(hl), r, oldP, k, oldL, oldL))
		np := e.define(e.freshName(hp.Name), hp.Sort, fmt.Sprintf("(ite (= %s 0) %s (store %s %s (store %s %s false)))", r, st.get(hp), st.get(hp), r, oldP, k))
		st.set(hl, nl)
		st.set(hp, np)
	case "min", "max":
		if v == nil {
			return
		}
		if s.SortOf(v.Type()) != "Int" || isFloat(v.Type()) {
			e.havocVal(v)
			return
		}
		t := e.term(args[0])
		for _, a := range args[1:] {
			at := e.term(a)
			if b.Name() == "min" {
				t = "(ite (<= " + t + " " + at + ") " + t + " " + at + ")"
			} else {
				t = "(ite (>= " + t + " " + at + ") " + t + " " + at + ")"
			}
		}
		setv("Int", t)
	case "ssa:wrapnilchk":
		x := e.term(args[0])
		e.safety("nil", "wrapnilchk", "(not (= "+x+" 0))", instr.Pos())
		setv("Int", x)
	case "print", "println", "close":
	case "recover":
		if v != nil {
			e.havocVal(v)
		}
	case "clear":
		e.warn("clear(): target havocked")
		switch u := args[0].Type().Underlying().(type) {
		case *types.Map:
			hp, _, hl := s.MapHeaps(u)
			st.set(hp, e.declare(e.freshName(hp.Name), hp.Sort))
			st.set(hl, e.declare(e.freshName(hl.Name), hl.Sort))
		case *types.Slice:
			h := s.ElemHeap(u.Elem())
			st.set(h, e.declare(e.freshName(h.Name), h.Sort))
		}
	default:
		if v != nil {
			e.warn("builtin %s: result havocked", b.Name())
			e.havocVal(v)
		}
	}
}

// constLenOf recognises `slice t[:]` of a fixed-size array allocation.
func constLenOf(v ssa.Value) (int64, bool) {
	sl, ok := v.(*ssa.Slice)
	if !ok || sl.Low != nil || sl.High != nil {
		return 0, false
	}
	pt, ok := sl.X.Type().Underlying().(*types.Pointer)
	if !ok {
		return 0, false
	}
	a, ok := pt.Elem().Underlying().(*types.Array)
	if !ok {
		return 0, false
	}
	return a.Len(), true
}

func (e *Enc) encodeAppend(args []ssa.Value, v *ssa.Call, st *State) {
	s := e.sorts()
	if v == nil {
		return
	}
	sl, ok := args[0].Type().Underlying().(*types.Slice)
	if !ok {
		e.havocVal(v)
		return
	}
	h := s.ElemHeap(sl.Elem())
	es := s.SortOf(sl.Elem())
	x := e.term(args[0])
	if len(args) < 2 {
		e.setVal(v, "Slice", x)
		return
	}
	if _, isSlice := args[1].Type().Underlying().(*types.Slice); !isSlice {
		// append([]byte, string...)
		e.havocVal(v)
		r := e.vals[v]
		e.fact(fmt.Sprintf("(= (s.len %s) (+ (s.len %s) (str.len %s)))", r, x, e.term(args[1])))
		st.set(h, e.declare(e.freshName(h.Name), h.Sort))
		return
	}
	t := e.term(args[1])
	E := st.get(h)
	id := v.Name()
	slen := e.define("ap$"+id+"$sl", "Int", "(s.len "+x+")")
	tlen := e.define("ap$"+id+"$tl", "Int", "(s.len "+t+")")
	n := e.define("ap$"+id+"$n", "Int", "(+ "+slen+" "+tlen+")")
	fits := e.define("ap$"+id+"$fits", "Bool", "(<= "+n+" (s.cap "+x+"))")
	qj := "qj!" + id
	sArr, sCell := e.cellOf(args[0], qj)
	tArr, tCell := e.cellOf(args[1], qj)
	Es := "(select " + E + " " + sArr + ")"
	Et := "(select " + E + " " + tArr + ")"
	fresh := e.alloc(st, "ap$"+id)
	arrSort := "(Array Int " + q(es) + ")"
	var ain, afr string
	afr = e.declare("ap$"+id+"$afr", arrSort)
	// fresh array, absolute-index form: afr[j] is s[j] for j < len(s) and t[j-len(s)] after that
	_, tCellShift := e.cellOf(args[1], "(- "+qj+" "+slen+")")
	e.fact(fmt.Sprintf("(forall ((%s Int)) (! (=> (and (<= 0 %s) (< %s %s)) (= (select %s %s) (ite (< %s %s) (select %s %s) (select %s %s)))) :pattern ((select %s %s))))",
		qj, qj, qj, n, afr, qj, qj, slen, Es, sCell, Et, tCellShift, afr, qj))
	// prefix in relative-index form, triggered from a cell of the result: r[j] = s[j] with both
	// sides written as at(off, j), so that quantified facts about s[j] fire without arithmetic
	e.fact(fmt.Sprintf("(forall ((%s Int)) (! (=> (and (<= 0 %s) (< %s %s)) (= (select %s (at 0 %s)) (select %s %s))) :pattern ((select %s (at 0 %s)))))",
		qj, qj, qj, slen, afr, qj, Es, sCell, afr, qj))
	if _, isConst := constLenOf(args[1]); isConst {
		// accumulate pattern (append(s, x)): the prefix fact is also triggered from the old cells,
		// so that "there is an index in the result" goals find their witness. Not done for general
		// appends: together with the absolute-index fact it can feed a matching loop.
		e.fact(fmt.Sprintf("(forall ((%s Int)) (! (=> (and (<= 0 %s) (< %s %s)) (= (select %s (at 0 %s)) (select %s %s))) :pattern ((select %s %s))))",
			qj, qj, qj, slen, afr, qj, Es, sCell, Es, sCell))
	}
	if cl, ok := constLenOf(args[1]); ok && cl <= 8 {
		ainT := Es
		for i := int64(0); i < cl; i++ {
			_, tc := e.cellOf(args[1], fmt.Sprint(i))
			el := fmt.Sprintf("(select %s %s)", Et, tc)
			_, sc := e.cellOf(args[0], fmt.Sprintf("(+ %s %d)", slen, i))
			ainT = fmt.Sprintf("(store %s %s %s)", ainT, sc, el)
			e.fact(fmt.Sprintf("(= (select %s (+ %s %d)) %s)", afr, slen, i, el))
			e.fact(fmt.Sprintf("(= (select %s (at 0 (+ %s %d))) %s)", afr, slen, i, el))
		}
		ain = e.define("ap$"+id+"$ain", arrSort, ainT)
	} else {
		ain = e.declare("ap$"+id+"$ain", arrSort)
		// in place (exact model only): cells off+slen .. off+n-1 receive t, all other cells are unchanged
		_, sCellApp := e.cellOf(args[0], "(+ "+slen+" "+qj+")")
		e.fact(fmt.Sprintf("(forall ((%s Int)) (! (=> (and (<= 0 %s) (< %s %s)) (= (select %s %s) (select %s %s))) :pattern ((select %s %s))))",
			qj, qj, qj, tlen, ain, sCellApp, Et, tCell, Et, tCell))
		e.fact(fmt.Sprintf("(forall ((%s Int)) (! (=> (or (< %s (+ (s.off %s) %s)) (>= %s (+ (s.off %s) %s))) (= (select %s %s) (select %s %s))) :pattern ((select %s %s))))",
			qj, qj, x, slen, qj, x, n, ain, qj, Es, qj, ain, qj))
	}
	ncap := e.declare("ap$"+id+"$cap", "Int")
	e.fact("(>= " + ncap + " " + n + ")")
	if e.fc != nil && e.fc.Opts["append"] == "exact" {
		// exact model: in place when the capacity suffices, otherwise a fresh array
		nh := e.define(e.freshName(h.Name), h.Sort, fmt.Sprintf("(ite %s (store %s (s.arr %s) %s) (store %s %s %s))", fits, E, x, ain, E, fresh, afr))
		st.set(h, nh)
		e.setVal(v, "Slice", fmt.Sprintf("(ite %s (mkslice (s.arr %s) (s.off %s) %s (s.cap %s)) (mkslice %s 0 %s %s))", fits, x, x, n, x, fresh, n, ncap))
		return
	}
	// default model: the result never shares storage with its first argument
	// (appending nothing to a nil slice yields nil)
	e.assumed["append (default model: the result does not share storage with its first argument; freshness of an appended list is not proved under it)"] = true
	nh := e.define(e.freshName(h.Name), h.Sort, fmt.Sprintf("(store %s %s %s)", E, fresh, afr))
	st.set(h, nh)
	e.setVal(v, "Slice", fmt.Sprintf("(ite (and (= %s 0) (= (s.arr %s) 0)) nilslice (mkslice %s 0 %s %s))", n, x, fresh, n, ncap))
	// ground helper facts: they put the terms quantified facts are triggered on into the e-graph
	r := e.vals[v]
	e.fact(fmt.Sprintf("(and (= (s.off %s) 0) (= (s.len %s) %s) (=> (> %s 0) (and (= (s.arr %s) %s) (= (select %s (s.arr %s)) %s))))", r, r, n, n, r, fresh, nh, r, afr))
}

func (e *Enc) encodeCopy(args []ssa.Value, v *ssa.Call, st *State) {
	s := e.sorts()
	dsl, ok := args[0].Type().Underlying().(*types.Slice)
	if !ok {
		if v != nil {
			e.havocVal(v)
		}
		return
	}
	h := s.ElemHeap(dsl.Elem())
	d := e.term(args[0])
	id := fmt.Sprint(e.count("copy"))
	if _, isSlice := args[1].Type().Underlying().(*types.Slice); !isSlice {
		st.set(h, e.declare(e.freshName(h.Name), h.Sort))
		if v != nil {
			e.havocVal(v)
		}
		return
	}
	src := e.term(args[1])
	E := st.get(h)
	n := e.define("cp$"+id+"$n", "Int", fmt.Sprintf("(ite (<= (s.len %s) (s.len %s)) (s.len %s) (s.len %s))", d, src, d, src))
	arrSort := "(Array Int " + q(s.SortOf(dsl.Elem())) + ")"
	na := e.declare("cp$"+id+"$arr", arrSort)
	qj := "qc!" + id
	Ed := "(select " + E + " (s.arr " + d + "))"
	Esrc := "(select " + E + " (s.arr " + src + "))"
	// absolute-index form: cells doff .. doff+n-1 receive src, all other cells are unchanged
	e.fact(fmt.Sprintf("(forall ((%s Int)) (! (= (select %s %s) (ite (and (<= (s.off %s) %s) (< %s (+ (s.off %s) %s))) (select %s (+ (s.off %s) (- %s (s.off %s)))) (select %s %s))) :pattern ((select %s %s))))",
		qj, na, qj, d, qj, qj, d, n, Esrc, src, qj, d, Ed, qj, na, qj))
	nh := e.define(e.freshName(h.Name), h.Sort, fmt.Sprintf("(ite (= %s 0) %s (store %s (s.arr %s) %s))", n, E, E, d, na))
	st.set(h, nh)
	if v != nil {
		e.setVal(v, "Int", n)
	}
}

// encodeSortCall models sort.Sort / sort.Stable applied to a slice-typed value whose
// Less method is under contract (assumed contract of package sort): the elements are
// permuted (skolemised both ways), every other backing array is untouched, and the
// result is ordered with respect to the postcondition of Less.
func (e *Enc) encodeSortCall(common *ssa.CallCommon, st *State) bool {
	sc := common.StaticCallee()
	if sc != nil && sc.Pkg != nil && sc.Pkg.Pkg.Path() == "sort" && (sc.Name() == "Slice" || sc.Name() == "SliceStable") && len(common.Args) == 2 {
		return e.encodeSortSliceCall(common, sc.Name() == "SliceStable", st)
	}
	if sc == nil || sc.Pkg == nil || sc.Pkg.Pkg.Path() != "sort" || (sc.Name() != "Sort" && sc.Name() != "Stable") || len(common.Args) != 1 {
		return false
	}
	// sort.Sort(sort.Reverse(x)): the same model with the comparison reversed
	reversed := false
	arg0 := common.Args[0]
	if rc, ok := arg0.(*ssa.Call); ok {
		if rf := rc.Call.StaticCallee(); rf != nil && rf.Pkg != nil && rf.Pkg.Pkg.Path() == "sort" && rf.Name() == "Reverse" && len(rc.Call.Args) == 1 {
			arg0 = rc.Call.Args[0]
			reversed = true
		}
	}
	mi, ok := arg0.(*ssa.MakeInterface)
	if !ok {
		return false
	}
	sl, ok := mi.X.Type().Underlying().(*types.Slice)
	if !ok {
		return false
	}
	n := namedOf(mi.X.Type())
	if n == nil || n.Obj().Pkg() == nil {
		return false
	}
	lessKey := n.Obj().Pkg().Path() + "." + n.Obj().Name() + ".Less"
	lc := e.ctx.contracts.Funcs[lessKey]
	if lc == nil {
		return false
	}
	s := e.sorts()
	h := s.ElemHeap(sl.Elem())
	old := st.get(h)
	id := fmt.Sprint(e.count("sortcall"))
	// the sorted slice gets a name of its own: its defining term may contain `ite` (an append
	// result), which solvers reject inside patterns
	x := e.declare("sort$"+id+"$arg", "Slice")
	e.fact("(= " + x + " " + e.term(mi.X) + ")")
	nh := e.declare("sort$"+id+"$"+h.Name, h.Sort)
	st.set(h, nh)
	perm, inv := q("sort$"+id+"$perm"), q("sort$"+id+"$inv")
	e.emit(fmt.Sprintf("(declare-fun %s (Int) Int)", perm))
	e.emit(fmt.Sprintf("(declare-fun %s (Int) Int)", inv))
	newArr := "(select " + nh + " (s.arr " + x + "))"
	oldArr := "(select " + old + " (s.arr " + x + "))"
	qi := "qs!" + id
	e.fact(fmt.Sprintf("(forall ((%s Int)) (! (=> (and (<= 0 %s) (< %s (s.len %s))) (and (<= 0 (%s %s)) (< (%s %s) (s.len %s)) (= (select %s (at (s.off %s) %s)) (select %s (at (s.off %s) (%s %s)))))) :pattern ((select %s (at (s.off %s) %s)))))",
		qi, qi, qi, x, perm, qi, perm, qi, x, newArr, x, qi, oldArr, x, perm, qi, newArr, x, qi))
	e.fact(fmt.Sprintf("(forall ((%s Int)) (! (=> (and (<= 0 %s) (< %s (s.len %s))) (and (<= 0 (%s %s)) (< (%s %s) (s.len %s)) (= (select %s (at (s.off %s) (%s %s))) (select %s (at (s.off %s) %s))))) :pattern ((select %s (at (s.off %s) %s)))))",
		qi, qi, qi, x, inv, qi, inv, qi, x, newArr, x, inv, qi, oldArr, x, qi, oldArr, x, qi))
	// total bijection (identity outside [0,len)): inverse laws without a range guard
	e.fact(fmt.Sprintf("(forall ((%s Int)) (! (and (= (%s (%s %s)) %s) (= (%s (%s %s)) %s)) :pattern ((%s %s)) :pattern ((%s %s))))",
		qi, inv, perm, qi, qi, perm, inv, qi, qi, perm, qi, inv, qi))
	// other arrays unchanged
	e.fact(fmt.Sprintf("(forall ((%s Int)) (! (=> (not (= %s (s.arr %s))) (= (select %s %s) (select %s %s))) :pattern ((select %s %s))))", qi, qi, x, nh, qi, old, qi, nh, qi))
	// cells of the same array outside the slice unchanged
	e.fact(fmt.Sprintf("(forall ((%s Int)) (! (=> (or (< %s (s.off %s)) (>= %s (+ (s.off %s) (s.len %s)))) (= (select %s %s) (select %s %s))) :pattern ((select %s %s))))", qi, qi, x, qi, x, x, newArr, qi, oldArr, qi, newArr, qi))
	// ordered w.r.t. Less: for a < b, !Less(b, a)
	var lessExpr Expr
	for _, cl := range lc.Ensures {
		if b, ok := cl.E.(*EBinary); ok && (b.Op == "<==>" || b.Op == "==") {
			if id, ok := b.X.(*EIdent); ok && id.Name == "result" {
				lessExpr = b.Y
			}
		}
	}
	lessFn := e.ctx.funcByKey[lessKey]
	if lessExpr != nil && lessFn != nil && len(lessFn.Params) == 3 {
		qa, qb := "qa!"+id, "qb!"+id
		first, second := qb, qa // sorted: for a < b, !Less(b, a)
		if reversed {
			first, second = qa, qb // reverse-sorted: for a < b, !Less(a, b)
		}
		vars := map[string]TV{
			lessFn.Params[0].Name(): {Term: x, Sort: "Slice", T: mi.X.Type()},
			lessFn.Params[1].Name(): {Term: first, Sort: "Int", T: types.Typ[types.Int]},
			lessFn.Params[2].Name(): {Term: second, Sort: "Int", T: types.Typ[types.Int]},
		}
		c := e.calleeCtx(lc, st, nil, vars, "sorted-by "+lessKey)
		body := c.boolTerm(lessExpr)
		e.fact(fmt.Sprintf("(forall ((%s Int) (%s Int)) (=> (and (<= 0 %s) (< %s %s) (< %s (s.len %s))) (not %s)))", qa, qb, qa, qa, qb, qb, x, body))
	}
	e.assumed["sort."+sc.Name()+" (permutes its argument; ordered by the contract of "+lessKey+")"] = true
	return true
}

func splitConj(e Expr) []Expr {
	if b, ok := e.(*EBinary); ok && b.Op == "&&" {
		return append(splitConj(b.X), splitConj(b.Y)...)
	}
	return []Expr{e}
}

func callsRecover(fn *ssa.Function) bool {
	for _, b := range fn.Blocks {
		for _, in := range b.Instrs {
			if c, ok := in.(*ssa.Call); ok {
				if bi, ok := c.Call.Value.(*ssa.Builtin); ok && bi.Name() == "recover" {
					return true
				}
			}
		}
	}
	return false
}

// encodeSortSliceCall models sort.Slice / sort.SliceStable(x, less) when `less` is a closure made in
// this function whose contract says `result == <expr over i, j and captured variables>`: the elements
// of x are permuted, every other array is untouched, the result is ordered with respect to that
// expression (read in the state after the sort) and, for SliceStable, elements that compare equal keep
// their relative order (assumed contract of package sort).
func (e *Enc) encodeSortSliceCall(common *ssa.CallCommon, stable bool, st *State) bool {
	mi, ok := common.Args[0].(*ssa.MakeInterface)
	if !ok {
		return false
	}
	sl, ok := mi.X.Type().Underlying().(*types.Slice)
	if !ok {
		return false
	}
	cv := common.Args[1]
	for {
		if ct, ok := cv.(*ssa.ChangeType); ok {
			cv = ct.X
			continue
		}
		break
	}
	mc, ok := cv.(*ssa.MakeClosure)
	if !ok {
		return false
	}
	lessFn, ok := mc.Fn.(*ssa.Function)
	if !ok || len(lessFn.Params) != 2 {
		return false
	}
	lessKey := funcKey(lessFn)
	lc := e.ctx.contracts.Funcs[lessKey]
	if lc == nil {
		return false
	}
	var lessExpr Expr
	for _, cl := range lc.Ensures {
		if b, ok := cl.E.(*EBinary); ok && (b.Op == "<==>" || b.Op == "==") {
			if id, ok := b.X.(*EIdent); ok && id.Name == "result" {
				lessExpr = b.Y
			}
		}
	}
	if lessExpr == nil {
		return false
	}
	s := e.sorts()
	h := s.ElemHeap(sl.Elem())
	old := st.get(h)
	id := fmt.Sprint(e.count("sortcall"))
	x := e.declare("sort$"+id+"$arg", "Slice")
	e.fact("(= " + x + " " + e.term(mi.X) + ")")
	qa, qb := "qa!"+id, "qb!"+id
	// the preconditions of the comparison closure must hold for every pair of indices of the slice
	// (before the sort; they are preserved by permuting the elements)
	for ri, rcl := range lc.Requires {
		vars := map[string]TV{
			lessFn.Params[0].Name(): {Term: qa, Sort: "Int", T: types.Typ[types.Int]},
			lessFn.Params[1].Name(): {Term: qb, Sort: "Int", T: types.Typ[types.Int]},
		}
		save := e.curClosureResolve
		e.curClosureResolve = e.closureResolver(mc)
		c := e.calleeCtx(lc, st, nil, vars, fmt.Sprintf("%s requires#%d at the sort call in %s", lessKey, ri+1, e.key))
		t := c.boolTerm(rcl.E)
		e.curClosureResolve = save
		goal := fmt.Sprintf("(forall ((%s Int) (%s Int)) (=> (and (<= 0 %s) (< %s (s.len %s)) (<= 0 %s) (< %s (s.len %s))) %s))", qa, qb, qa, qa, x, qb, qb, x, t)
		e.oblig("pre", fmt.Sprintf("pre[less-callback.%d]@sort#%s", ri+1, id), goal, rcl.Src+"   [precondition of the comparison closure "+lessKey+" for every pair of indices]", nil)
	}
	nh := e.declare("sort$"+id+"$"+h.Name, h.Sort)
	st.set(h, nh)
	perm, inv := q("sort$"+id+"$perm"), q("sort$"+id+"$inv")
	e.emit(fmt.Sprintf("(declare-fun %s (Int) Int)", perm))
	e.emit(fmt.Sprintf("(declare-fun %s (Int) Int)", inv))
	newArr := "(select " + nh + " (s.arr " + x + "))"
	oldArr := "(select " + old + " (s.arr " + x + "))"
	qi := "qs!" + id
	e.fact(fmt.Sprintf("(forall ((%s Int)) (! (=> (and (<= 0 %s) (< %s (s.len %s))) (and (<= 0 (%s %s)) (< (%s %s) (s.len %s)) (= (select %s (at (s.off %s) %s)) (select %s (at (s.off %s) (%s %s)))))) :pattern ((select %s (at (s.off %s) %s))) :pattern ((%s %s))))",
		qi, qi, qi, x, perm, qi, perm, qi, x, newArr, x, qi, oldArr, x, perm, qi, newArr, x, qi, perm, qi))
	e.fact(fmt.Sprintf("(forall ((%s Int)) (! (=> (and (<= 0 %s) (< %s (s.len %s))) (and (<= 0 (%s %s)) (< (%s %s) (s.len %s)) (= (select %s (at (s.off %s) (%s %s))) (select %s (at (s.off %s) %s))))) :pattern ((select %s (at (s.off %s) %s))) :pattern ((%s %s))))",
		qi, qi, qi, x, inv, qi, inv, qi, x, newArr, x, inv, qi, oldArr, x, qi, oldArr, x, qi, inv, qi))
	e.fact(fmt.Sprintf("(forall ((%s Int)) (! (and (= (%s (%s %s)) %s) (= (%s (%s %s)) %s)) :pattern ((%s %s)) :pattern ((%s %s))))",
		qi, inv, perm, qi, qi, perm, inv, qi, qi, perm, qi, inv, qi))
	e.fact(fmt.Sprintf("(forall ((%s Int)) (! (=> (not (= %s (s.arr %s))) (= (select %s %s) (select %s %s))) :pattern ((select %s %s))))", qi, qi, x, nh, qi, old, qi, nh, qi))
	e.fact(fmt.Sprintf("(forall ((%s Int)) (! (=> (or (< %s (s.off %s)) (>= %s (+ (s.off %s) (s.len %s)))) (= (select %s %s) (select %s %s))) :pattern ((select %s %s))))", qi, qi, x, qi, x, x, newArr, qi, oldArr, qi, newArr, qi))
	// less(first, second) over the sorted array, captured variables read in the state after the sort
	lessAt := func(first, second string) string {
		vars := map[string]TV{
			lessFn.Params[0].Name(): {Term: first, Sort: "Int", T: types.Typ[types.Int]},
			lessFn.Params[1].Name(): {Term: second, Sort: "Int", T: types.Typ[types.Int]},
		}
		save := e.curClosureResolve
		e.curClosureResolve = e.closureResolver(mc)
		c := e.calleeCtx(lc, st, nil, vars, "sorted-by "+lessKey)
		t := c.boolTerm(lessExpr)
		e.curClosureResolve = save
		return t
	}
	inRange := fmt.Sprintf("(and (<= 0 %s) (< %s %s) (< %s (s.len %s)))", qa, qa, qb, qb, x)
	e.fact(fmt.Sprintf("(forall ((%s Int) (%s Int)) (=> %s (not %s)))", qa, qb, inRange, lessAt(qb, qa)))
	if stable {
		e.fact(fmt.Sprintf("(forall ((%s Int) (%s Int)) (=> (and %s (not %s)) (< (%s %s) (%s %s))))", qa, qb, inRange, lessAt(qa, qb), perm, qa, perm, qb))
	}
	// ghost GsortOrigin: where the element now at position k came from (contracts state stability
	// and "same elements" over it)
	if gv, ok := e.ctx.contracts.GVars["GsortOrigin"]; ok {
		_ = gv
		gh := Heap{Name: "G$GsortOrigin", Sort: "(Array Int Int)", Kind: HGhost}
		ng := e.declare("sort$"+id+"$origin", gh.Sort)
		st.set(gh, ng)
		e.fact(fmt.Sprintf("(forall ((%s Int)) (! (= (select %s %s) (%s %s)) :pattern ((select %s %s))))", qi, ng, qi, perm, qi, ng, qi))
	}
	e.assumed["sort."+map[bool]string{true: "SliceStable", false: "Slice"}[stable]+" (permutes its argument; ordered by the contract of "+lessKey+")"] = true
	return true
}
