package main

// SMT-LIB script assembly and solver racing.

import (
	"bytes"
	"context"
	"fmt"
	"os"
	"os/exec"
	"path/filepath"
	"strings"
	"sync"
	"time"
)

const fixedPrelude = `(define-fun godiv ((a Int) (b Int)) Int (ite (= (>= a 0) (> b 0)) (div (abs a) (abs b)) (- (div (abs a) (abs b)))))
(define-fun gomod ((a Int) (b Int)) Int (- a (* b (godiv a b))))
(declare-fun at (Int Int) Int)
(assert (forall ((o Int) (i Int)) (! (= (at o i) (+ o i)) :pattern ((at o i)))))
(declare-fun bitand (Int Int) Int)
(declare-fun bitor (Int Int) Int)
(declare-fun bitxor (Int Int) Int)
(declare-fun bitshl (Int Int) Int)
(declare-fun bitshr (Int Int) Int)
(declare-fun bitandnot (Int Int) Int)
(define-fun itoa ((i Int)) String (ite (>= i 0) (str.from_int i) (str.++ "-" (str.from_int (- i)))))
`

func (c *Ctx) prelude(e *Enc) string {
	var b strings.Builder
	b.WriteString("(set-option :produce-models true)\n(set-logic ALL)\n")
	b.WriteString(c.sorts.Prelude())
	b.WriteString(fixedPrelude)
	for _, n := range c.ufOrder {
		b.WriteString(c.ufDecls[n])
		b.WriteString("\n")
	}
	// type tags are distinct positive integers by construction; tagOf(nil) = 0
	b.WriteString("(assert (= (tagOf 0) 0))\n")
	for _, a := range e.axioms {
		b.WriteString("(assert " + a + ")\n")
	}
	return b.String()
}

func (o *Oblig) BuildScript() string {
	e := o.enc
	var b strings.Builder
	b.WriteString(e.preludeText)
	for _, d := range e.decls {
		b.WriteString(d)
		b.WriteString("\n")
	}
	for _, it := range e.items[:o.Pos] {
		b.WriteString(it)
		b.WriteString("\n")
	}
	if o.Guard != "true" {
		b.WriteString("(assert " + o.Guard + ")\n")
	}
	b.WriteString("(assert (not " + o.Goal + "))\n")
	b.WriteString("(check-sat)\n")
	return b.String()
}

type solverSpec struct {
	name string
	argv func(file string, sec int) []string
}

var solvers = []solverSpec{
	{"z3-5.1.0", func(f string, sec int) []string { return []string{"z3-new", fmt.Sprintf("-T:%d", sec), f} }},
	{"z3-4.8.12", func(f string, sec int) []string { return []string{"z3", fmt.Sprintf("-T:%d", sec), f} }},
	{"cvc5-1.0", func(f string, sec int) []string {
		return []string{"cvc5", "--strings-exp", fmt.Sprintf("--tlimit=%d", sec*1000), f}
	}},
}

type solveResult struct {
	solver string
	answer string // sat | unsat | unknown | timeout | error
	out    string
	ms     int64
}

func runSolver(sp solverSpec, file string, sec int, seed int) solveResult {
	return runSolverCtx(context.Background(), sp, file, sec, seed)
}

func runSolverCtx(parent context.Context, sp solverSpec, file string, sec int, seed int) solveResult {
	argv := sp.argv(file, sec)
	if seed != 0 {
		switch {
		case strings.HasPrefix(sp.name, "z3"):
			argv = append(argv[:1], append([]string{fmt.Sprintf("smt.random_seed=%d", seed), fmt.Sprintf("sat.random_seed=%d", seed)}, argv[1:]...)...)
		case strings.HasPrefix(sp.name, "cvc5"):
			argv = append(argv[:1], append([]string{fmt.Sprintf("--seed=%d", seed)}, argv[1:]...)...)
		}
	}
	ctx, cancel := context.WithTimeout(parent, time.Duration(sec+5)*time.Second)
	defer cancel()
	cmd := exec.CommandContext(ctx, argv[0], argv[1:]...)
	var out bytes.Buffer
	cmd.Stdout = &out
	cmd.Stderr = &out
	t0 := time.Now()
	_ = cmd.Run()
	ms := time.Since(t0).Milliseconds()
	text := out.String()
	first := strings.TrimSpace(strings.SplitN(text, "\n", 2)[0])
	ans := "error"
	switch first {
	case "sat", "unsat", "unknown":
		ans = first
	case "timeout":
		ans = "timeout"
	default:
		if parent.Err() != nil {
			ans = "cancelled"
		} else if ctx.Err() != nil || strings.Contains(text, "timeout") || strings.Contains(text, "interrupted by timeout") {
			ans = "timeout"
		}
	}
	return solveResult{sp.name, ans, text, ms}
}

// raceSolvers starts all solvers; the first sat/unsat answer wins and the others are killed.
func raceSolvers(file string, sec, seed int) []solveResult {
	ctx, cancel := context.WithCancel(context.Background())
	defer cancel()
	ch := make(chan solveResult, len(solvers))
	for _, sp := range solvers {
		go func(sp solverSpec) { ch <- runSolverCtx(ctx, sp, file, sec, seed) }(sp)
	}
	var results []solveResult
	for range solvers {
		r := <-ch
		if r.answer == "cancelled" {
			continue
		}
		results = append(results, r)
		if r.answer == "sat" || r.answer == "unsat" {
			cancel()
			break
		}
	}
	return results
}

// Solve decides one obligation. quick: first definite answer wins (z3-new first,
// then the other two in parallel). thorough: every solver is asked; discharged
// needs at least one unsat and no sat (the number of confirmations is recorded).
func (o *Oblig) Solve(dir string, tier string, seed int) {
	script := o.BuildScript()
	o.Script = script
	file := filepath.Join(dir, sanitize(o.Name)+".smt2")
	if len(file) > 200 {
		file = filepath.Join(dir, fmt.Sprintf("o%x.smt2", hashString(o.Name)))
	}
	if err := os.WriteFile(file, []byte(script), 0o644); err != nil {
		o.Status, o.Output = "error", err.Error()
		return
	}
	wantSat := o.Expect == "sat"
	sec := 10
	if tier == "thorough" {
		sec = 60
	}
	if tier == "retry" {
		// second attempt of an obligation that did not discharge under the quick limit (machine
		// load, solver luck): race again with a longer limit
		sec = 40
	}
	if wantSat {
		sec = 3
	}
	var results []solveResult
	if tier == "thorough" && !wantSat {
		var wg sync.WaitGroup
		res := make([]solveResult, len(solvers))
		for i, sp := range solvers {
			wg.Add(1)
			go func(i int, sp solverSpec) {
				defer wg.Done()
				res[i] = runSolver(sp, file, sec, seed)
			}(i, sp)
		}
		wg.Wait()
		results = res
	} else {
		results = raceSolvers(file, sec, seed)
	}
	nUnsat, nSat := 0, 0
	var outs []string
	for _, r := range results {
		o.Ms += r.ms
		outs = append(outs, fmt.Sprintf("[%s] %s (%d ms)", r.solver, r.answer, r.ms))
		switch r.answer {
		case "unsat":
			nUnsat++
			o.Confirm = append(o.Confirm, r.solver)
			if o.Solver == "" {
				o.Solver = r.solver
			}
		case "sat":
			nSat++
			o.Solver = r.solver
		case "error":
			outs = append(outs, firstLines(r.out, 6))
		}
	}
	o.Output = strings.Join(outs, "\n")
	if wantSat {
		// vacuity check: fails only if the assumptions are proved contradictory
		if nUnsat > 0 && nSat == 0 {
			o.Status = "refuted"
			o.Output += "\nassumptions are contradictory (the goal `false` was proved)"
		} else {
			o.Status = "discharged"
		}
		return
	}
	switch {
	case nSat > 0 && nUnsat > 0:
		o.Status = "error"
		o.Output += "\nsolvers disagree"
	case nSat > 0:
		o.Status = "refuted"
		// fetch a model from the solver that said sat
		o.Model = fetchModel(file, script, o.Solver)
	case nUnsat >= 1:
		// thorough: every solver was asked and none found a counterexample; how many confirmed is
		// recorded (an obligation only one of the three can decide still counts as discharged:
		// asking for two made harmless edits alarm on goals only one solver's theory reaches)
		o.Status = "discharged"
		if tier == "thorough" && nUnsat == 1 {
			o.Output += "\nconfirmed by one solver only (the others gave no answer)"
		}
	default:
		o.Status = "undecided"
	}
}

func fetchModel(file, script, solver string) string {
	mf := strings.TrimSuffix(file, ".smt2") + ".model.smt2"
	if err := os.WriteFile(mf, []byte(script+"(get-model)\n"), 0o644); err != nil {
		return ""
	}
	for _, sp := range solvers {
		if sp.name == solver {
			r := runSolver(sp, mf, 20, 0)
			return r.out
		}
	}
	return ""
}

func firstLines(s string, n int) string {
	l := strings.Split(s, "\n")
	if len(l) > n {
		l = l[:n]
	}
	return strings.Join(l, "\n")
}

func hashString(s string) uint64 {
	var h uint64 = 1469598103934665603
	for i := 0; i < len(s); i++ {
		h ^= uint64(s[i])
		h *= 1099511628211
	}
	return h
}

// SolveAll runs obligations in parallel.
func SolveAll(obs []*Oblig, dir, tier string, seed, workers int) {
	var wg sync.WaitGroup
	ch := make(chan *Oblig)
	for w := 0; w < workers; w++ {
		wg.Add(1)
		go func() {
			defer wg.Done()
			for o := range ch {
				o.Solve(dir, tier, seed)
			}
		}()
	}
	for _, o := range obs {
		ch <- o
	}
	close(ch)
	wg.Wait()
}
