package action

// Scenario for the obligations of (*Upgrade).releasingUpgrade / failRelease (C03): a non-atomic
// upgrade whose hook fails must report an error, record the new revision as failed and leave the
// previously deployed revision marked deployed. Injected with `go test -overlay` by govc when one
// of those obligations fails; never written into /repo.

import (
	"fmt"
	"io"
	"testing"

	kubefake "helm.sh/helm/v4/pkg/kube/fake"
	release "helm.sh/helm/v4/pkg/release/v1"
)

func TestVerifReplayUpgradeHookFailureKeepsPrevious(t *testing.T) {
	upAction := upgradeAction(t)
	failer := upAction.cfg.KubeClient.(*kubefake.FailingKubeClient)
	failer.WatchUntilReadyError = fmt.Errorf("hook never became ready")
	failer.PrintingKubeClient = kubefake.PrintingKubeClient{Out: io.Discard, LogOutput: io.Discard}

	rel := releaseStub()
	rel.Name = "replay-upgrade-hook"
	rel.Info.Status = release.StatusDeployed
	if err := upAction.cfg.Releases.Create(rel); err != nil {
		t.Fatal(err)
	}
	_, err := upAction.Run(rel.Name, buildChart(), map[string]interface{}{})
	hist, herr := upAction.cfg.Releases.History(rel.Name)
	if herr != nil {
		t.Fatal(herr)
	}
	desc := ""
	var v1, v2 release.Status
	for _, r := range hist {
		desc += fmt.Sprintf(" v%d=%s", r.Version, r.Info.Status)
		switch r.Version {
		case 1:
			v1 = r.Info.Status
		case 2:
			v2 = r.Info.Status
		}
	}
	if err == nil {
		t.Fatalf("REPLAY-CONFIRMED: an upgrade whose post-upgrade hook fails reported success (history:%s)", desc)
	}
	if v1 != release.StatusDeployed || v2 != release.StatusFailed {
		t.Fatalf("REPLAY-CONFIRMED: after a failed upgrade (%v) the history is%s; expected v1=deployed v2=failed", err, desc)
	}
	t.Log("REPLAY-NOT-REPRODUCED: history:" + desc)
}
