package action

// Demonstration for finding C01/(*Upgrade).releasingUpgrade: the write that marks the previously
// deployed revision superseded goes through recordRelease, which only logs a failed write. When that
// one storage write fails, the upgrade still reports success and the history has two revisions
// marked deployed.
// Injected with `go test -overlay`; never written into /repo.

import (
	"encoding/json"
	"fmt"
	"io"
	"testing"

	kubefake "helm.sh/helm/v4/pkg/kube/fake"
	release "helm.sh/helm/v4/pkg/release/v1"
	"helm.sh/helm/v4/pkg/storage/driver"
)

// a storage backend that keeps its own copies of the records (as the Secret/ConfigMap/SQL backends
// do, unlike the in-memory test driver, which hands out the very objects it stores) and on which the
// write that marks a revision superseded fails (once)
type replaySupersedeWriteFails struct {
	driver.Driver
	failed bool
}

func replayCopy(r *release.Release) *release.Release {
	if r == nil {
		return nil
	}
	data, err := json.Marshal(r)
	if err != nil {
		panic(err)
	}
	var c release.Release
	if err := json.Unmarshal(data, &c); err != nil {
		panic(err)
	}
	return &c
}

func replayCopies(rs []*release.Release, err error) ([]*release.Release, error) {
	out := make([]*release.Release, 0, len(rs))
	for _, r := range rs {
		out = append(out, replayCopy(r))
	}
	return out, err
}

func (d *replaySupersedeWriteFails) Create(key string, rls *release.Release) error {
	return d.Driver.Create(key, replayCopy(rls))
}

func (d *replaySupersedeWriteFails) Update(key string, rls *release.Release) error {
	if !d.failed && rls.Info.Status == release.StatusSuperseded {
		d.failed = true
		return fmt.Errorf("storage backend unavailable")
	}
	return d.Driver.Update(key, replayCopy(rls))
}

func (d *replaySupersedeWriteFails) Get(key string) (*release.Release, error) {
	r, err := d.Driver.Get(key)
	return replayCopy(r), err
}

func (d *replaySupersedeWriteFails) List(filter func(*release.Release) bool) ([]*release.Release, error) {
	return replayCopies(d.Driver.List(filter))
}

func (d *replaySupersedeWriteFails) Query(labels map[string]string) ([]*release.Release, error) {
	return replayCopies(d.Driver.Query(labels))
}

func TestVerifReplayUpgradeSuccessWithFailedSupersedeWrite(t *testing.T) {
	upAction := upgradeAction(t)
	failer := upAction.cfg.KubeClient.(*kubefake.FailingKubeClient)
	failer.PrintingKubeClient = kubefake.PrintingKubeClient{Out: io.Discard, LogOutput: io.Discard}
	wrapped := &replaySupersedeWriteFails{Driver: upAction.cfg.Releases.Driver}
	upAction.cfg.Releases.Driver = wrapped

	rel := releaseStub()
	rel.Name = "replay-two-deployed"
	rel.Info.Status = release.StatusDeployed
	if err := upAction.cfg.Releases.Create(rel); err != nil {
		t.Fatal(err)
	}
	_, err := upAction.Run(rel.Name, buildChart(), map[string]interface{}{})
	if !wrapped.failed {
		t.Fatal("the write that marks the old revision superseded was never attempted: not the scenario")
	}
	hist, herr := upAction.cfg.Releases.History(rel.Name)
	if herr != nil {
		t.Fatal(herr)
	}
	desc := ""
	deployed := 0
	for _, r := range hist {
		desc += fmt.Sprintf(" v%d=%s", r.Version, r.Info.Status)
		if r.Info.Status == release.StatusDeployed {
			deployed++
		}
	}
	if err == nil && deployed > 1 {
		t.Fatalf("REPLAY-CONFIRMED: one storage write failed, the upgrade reported success, and the history has %d revisions marked deployed:%s", deployed, desc)
	}
	t.Logf("REPLAY-NOT-REPRODUCED: upgrade returned %v; history:%s", err, desc)
}
