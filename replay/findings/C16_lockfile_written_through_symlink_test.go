package downloader

// Demonstration for finding C16/writeLock: the lock file of a dependency update must not be written
// through a symbolic link planted at <chart>/Chart.lock — the write would land wherever the link
// points (outside the chart directory). Injected with `go test -overlay`; never written into /repo.

import (
	"os"
	"path/filepath"
	"testing"
	"time"

	chart "helm.sh/helm/v4/pkg/chart/v2"
)

func TestVerifReplayLockWrittenThroughSymlink(t *testing.T) {
	tmp := t.TempDir()
	chartDir := filepath.Join(tmp, "mychart")
	outside := filepath.Join(tmp, "outside")
	if err := os.MkdirAll(chartDir, 0o755); err != nil {
		t.Fatal(err)
	}
	if err := os.MkdirAll(outside, 0o755); err != nil {
		t.Fatal(err)
	}
	victim := filepath.Join(outside, "victim.txt")
	if err := os.WriteFile(victim, []byte("precious"), 0o644); err != nil {
		t.Fatal(err)
	}
	if err := os.Symlink(victim, filepath.Join(chartDir, "Chart.lock")); err != nil {
		t.Skip("symlinks not available:", err)
	}
	lock := &chart.Lock{Generated: time.Unix(0, 0), Digest: "sha256:0"}
	err := writeLock(chartDir, lock, false)
	after, rerr := os.ReadFile(victim)
	if rerr != nil {
		t.Fatal(rerr)
	}
	if string(after) != "precious" {
		t.Fatalf("REPLAY-CONFIRMED: writeLock followed the symlink at Chart.lock and overwrote %s outside the chart directory (err=%v, content now %q)", victim, err, string(after))
	}
	t.Logf("REPLAY-NOT-REPRODUCED: the file outside the chart is untouched (writeLock returned %v)", err)
}
