package action

// Demonstration for finding C02/filterManifestsToKeep: a manifest whose
// helm.sh/resource-policy annotation is present but is not "keep" must end up in
// `remaining` (so that uninstall deletes it); every manifest is in exactly one list.
// Injected with `go test -overlay`; never written into /repo.

import (
	"testing"

	"helm.sh/helm/v4/pkg/kube"
	releaseutil "helm.sh/helm/v4/pkg/release/util"
)

func TestVerifReplayFilterManifestsPartition(t *testing.T) {
	mk := func(name string, annos map[string]string) releaseutil.Manifest {
		h := &releaseutil.SimpleHead{Kind: "ConfigMap"}
		h.Metadata = &struct {
			Name        string            `json:"name"`
			Annotations map[string]string `json:"annotations"`
		}{Name: name, Annotations: annos}
		return releaseutil.Manifest{Name: name, Head: h}
	}
	in := []releaseutil.Manifest{
		mk("kept", map[string]string{kube.ResourcePolicyAnno: "keep"}),
		mk("other-policy", map[string]string{kube.ResourcePolicyAnno: "delete"}),
		mk("plain", nil),
	}
	keep, remaining := filterManifestsToKeep(in)
	if len(keep)+len(remaining) != len(in) {
		t.Fatalf("REPLAY-CONFIRMED: %d manifests in, %d kept + %d remaining out: a manifest with a non-keep policy is neither deleted nor reported", len(in), len(keep), len(remaining))
	}
	t.Log("REPLAY-NOT-REPRODUCED")
}
