package util

// Demonstration for finding C20/processImportValues: an import-values entry of the map form whose
// "child" or "parent" is missing or not a string passes chart validation and then makes dependency
// processing panic (unchecked type assertion).
// Injected with `go test -overlay`; never written into /repo.

import (
	"fmt"
	"testing"

	chart "helm.sh/helm/v4/pkg/chart/v2"
)

func TestVerifReplayImportValuesNonString(t *testing.T) {
	// Chart.yaml:  import-values: [{child: 1, parent: imported}]  /  [{child: data, parent: 2}]  /  [{child: data}]
	entries := []map[string]interface{}{
		{"child": 1, "parent": "imported"},
		{"child": "data", "parent": 2},
		{"child": "data"},
	}
	for _, entry := range entries {
		sub := &chart.Chart{Metadata: &chart.Metadata{APIVersion: "v2", Name: "sub", Version: "0.1.0"}, Values: map[string]interface{}{"data": map[string]interface{}{"k": "v"}}}
		parent := &chart.Chart{
			Metadata: &chart.Metadata{APIVersion: "v2", Name: "parent", Version: "0.1.0", Dependencies: []*chart.Dependency{{
				Name: "sub", Version: "0.1.0", Repository: "https://example.com/charts",
				ImportValues: []interface{}{entry},
			}}},
			Values: map[string]interface{}{},
		}
		parent.AddDependency(sub)
		if err := parent.Validate(); err != nil {
			t.Fatalf("the chart does not pass validation (%v): not the scenario", err)
		}
		var panicked interface{}
		var perr error
		func() {
			defer func() { panicked = recover() }()
			perr = ProcessDependencies(parent, map[string]interface{}{})
		}()
		if panicked != nil {
			t.Fatalf("REPLAY-CONFIRMED: a chart with the import-values entry %v passes Validate() and makes ProcessDependencies panic: %s", entry, fmt.Sprint(panicked))
		}
		t.Logf("import-values entry %v: ProcessDependencies returned %v", entry, perr)
	}
	t.Log("REPLAY-NOT-REPRODUCED")
}
