package action

// Demonstration for finding C01/replaceRelease: `install --replace` over a history whose last
// revision is failed while an earlier revision is still deployed must not end with two revisions
// marked deployed. Injected with `go test -overlay`; never written into /repo.

import (
	"testing"

	release "helm.sh/helm/v4/pkg/release/v1"
)

func TestVerifReplayReplaceLeavesTwoDeployed(t *testing.T) {
	instAction := installAction(t)
	instAction.ReleaseName = "replay-two-deployed"
	instAction.Namespace = "spaced"
	instAction.Replace = true

	rel1 := releaseStub()
	rel1.Name, rel1.Namespace, rel1.Version = instAction.ReleaseName, "spaced", 1
	rel1.Info.Status = release.StatusDeployed
	rel2 := releaseStub()
	rel2.Name, rel2.Namespace, rel2.Version = instAction.ReleaseName, "spaced", 2
	rel2.Info.Status = release.StatusFailed
	if err := instAction.cfg.Releases.Create(rel1); err != nil {
		t.Fatal(err)
	}
	if err := instAction.cfg.Releases.Create(rel2); err != nil {
		t.Fatal(err)
	}

	if _, err := instAction.Run(buildChart(), map[string]interface{}{}); err != nil {
		t.Fatalf("install --replace failed: %v", err)
	}
	hist, err := instAction.cfg.Releases.History(instAction.ReleaseName)
	if err != nil {
		t.Fatal(err)
	}
	deployed := 0
	desc := ""
	for _, r := range hist {
		desc += " " + r.Info.Status.String()
		if r.Info.Status == release.StatusDeployed {
			deployed++
		}
	}
	if deployed != 1 {
		t.Fatalf("REPLAY-CONFIRMED: %d revisions are marked deployed after install --replace (history:%s)", deployed, desc)
	}
	t.Log("REPLAY-NOT-REPRODUCED: history:" + desc)
}
