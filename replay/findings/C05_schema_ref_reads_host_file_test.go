package util

// Demonstration for finding C05/ValidateAgainstSingleSchema: the JSON-schema compiler keeps its
// default URL loader, so a values schema with a "$ref" to a file:// URL reads a file of the host;
// whether the same chart with the same values is accepted depends on that file.
// Injected with `go test -overlay`; never written into /repo.

import (
	"os"
	"path/filepath"
	"testing"
)

func TestVerifReplaySchemaRefReadsHostFile(t *testing.T) {
	canary := filepath.Join(t.TempDir(), "canary.json")
	schema := []byte(`{"$schema":"https://json-schema.org/draft/2020-12/schema","$ref":"file://` + filepath.ToSlash(canary) + `"}`)
	vals := Values{"present": true}

	if err := os.WriteFile(canary, []byte(`{"type":"object","required":["missing"]}`), 0o600); err != nil {
		t.Fatal(err)
	}
	err1 := ValidateAgainstSingleSchema(vals, schema)
	if err := os.WriteFile(canary, []byte(`{"type":"object"}`), 0o600); err != nil {
		t.Fatal(err)
	}
	err2 := ValidateAgainstSingleSchema(vals, schema)

	if (err1 == nil) != (err2 == nil) {
		t.Fatalf("REPLAY-CONFIRMED: the same schema and values are rejected (%v) or accepted (%v) depending on the content of the host file %s", err1, err2, canary)
	}
	t.Logf("REPLAY-NOT-REPRODUCED: the outcome does not depend on the host file (first: %v, second: %v)", err1, err2)
}
