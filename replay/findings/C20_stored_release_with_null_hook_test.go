package action

// Demonstration for finding C20/decodeRelease: a stored release record whose JSON has a null entry in
// "hooks" is decoded into a release with a nil hook, and the next operation that runs hooks for the
// release (uninstall, rollback, upgrade) dereferences it and panics.
// Injected with `go test -overlay`; never written into /repo.

import (
	"context"
	"encoding/base64"
	"fmt"
	"testing"

	corev1 "k8s.io/api/core/v1"
	metav1 "k8s.io/apimachinery/pkg/apis/meta/v1"
	fakeclientset "k8s.io/client-go/kubernetes/fake"

	"helm.sh/helm/v4/pkg/storage"
	"helm.sh/helm/v4/pkg/storage/driver"
)

func TestVerifReplayStoredReleaseWithNullHook(t *testing.T) {
	cfg := actionConfigFixture(t)
	secrets := fakeclientset.NewSimpleClientset().CoreV1().Secrets("default")
	cfg.Releases = storage.Init(driver.NewSecrets(secrets))

	payload := `{"name":"nullhook","version":1,"namespace":"default","info":{"status":"deployed"},"manifest":"","hooks":[null]}`
	sec := &corev1.Secret{
		ObjectMeta: metav1.ObjectMeta{Name: "sh.helm.release.v1.nullhook.v1", Labels: map[string]string{"owner": "helm", "name": "nullhook", "status": "deployed", "version": "1"}},
		Type:       "helm.sh/release.v1",
		Data:       map[string][]byte{"release": []byte(base64.StdEncoding.EncodeToString([]byte(payload)))},
	}
	if _, err := secrets.Create(context.Background(), sec, metav1.CreateOptions{}); err != nil {
		t.Fatal(err)
	}
	if rel, err := cfg.Releases.Last("nullhook"); err != nil || rel == nil {
		t.Fatalf("the stored record is not readable (%v): not the scenario", err)
	}

	var panicked interface{}
	var uerr error
	func() {
		defer func() { panicked = recover() }()
		_, uerr = NewUninstall(cfg).Run("nullhook")
	}()
	if panicked != nil {
		t.Fatalf("REPLAY-CONFIRMED: uninstalling a release whose stored record has \"hooks\":[null] panics: %s", fmt.Sprint(panicked))
	}
	t.Logf("REPLAY-NOT-REPRODUCED: uninstall returned %v", uerr)
}
