package repo

// Demonstration for finding C18/C20 loadIndex: a repository index with a null chart version
// must load (the null entry being dropped) or fail with an error, not panic while sorting.
// Injected with `go test -overlay`; never written into /repo.

import "testing"

func TestVerifReplayLoadIndexNullEntry(t *testing.T) {
	data := []byte(`apiVersion: v1
entries:
  demo:
    - name: demo
      version: 1.0.0
      urls: ["https://example.com/demo-1.0.0.tgz"]
    - null
    - name: demo
      version: 2.0.0
      urls: ["https://example.com/demo-2.0.0.tgz"]
`)
	defer func() {
		if r := recover(); r != nil {
			t.Fatalf("REPLAY-CONFIRMED: loadIndex panicked on an index with a null entry: %v", r)
		}
	}()
	idx, err := loadIndex(data, "replay")
	if err != nil {
		t.Logf("REPLAY-NOT-REPRODUCED: error returned: %v", err)
		return
	}
	for name, cvs := range idx.Entries {
		for j, cv := range cvs {
			if cv == nil {
				t.Fatalf("REPLAY-CONFIRMED: loaded index keeps a nil entry at %s[%d]", name, j)
			}
		}
	}
	if len(idx.Entries["demo"]) != 2 || idx.Entries["demo"][0].Version != "2.0.0" {
		t.Fatalf("unexpected entries: %v", idx.Entries["demo"])
	}
	t.Log("REPLAY-NOT-REPRODUCED")
}
