package action

// Demonstration for finding C20/decodeRelease: a stored release record whose JSON has no "info"
// section is decoded into a release whose Info is nil, and the next operation on the release
// (status, uninstall, rollback, upgrade, history filters) dereferences it and panics.
// Injected with `go test -overlay`; never written into /repo.

import (
	"context"
	"encoding/base64"
	"fmt"
	"testing"

	corev1 "k8s.io/api/core/v1"
	metav1 "k8s.io/apimachinery/pkg/apis/meta/v1"
	fakeclientset "k8s.io/client-go/kubernetes/fake"

	"helm.sh/helm/v4/pkg/storage"
	"helm.sh/helm/v4/pkg/storage/driver"
)

func TestVerifReplayStoredReleaseWithoutInfo(t *testing.T) {
	cfg := actionConfigFixture(t)
	secrets := fakeclientset.NewSimpleClientset().CoreV1().Secrets("default")
	cfg.Releases = storage.Init(driver.NewSecrets(secrets))

	payload := `{"name":"noinfo","version":1,"namespace":"default","manifest":""}`
	sec := &corev1.Secret{
		ObjectMeta: metav1.ObjectMeta{Name: "sh.helm.release.v1.noinfo.v1", Labels: map[string]string{"owner": "helm", "name": "noinfo", "status": "deployed", "version": "1"}},
		Type:       "helm.sh/release.v1",
		Data:       map[string][]byte{"release": []byte(base64.StdEncoding.EncodeToString([]byte(payload)))},
	}
	if _, err := secrets.Create(context.Background(), sec, metav1.CreateOptions{}); err != nil {
		t.Fatal(err)
	}
	var rerr error
	var rpanic interface{}
	func() {
		defer func() { rpanic = recover() }()
		_, rerr = cfg.Releases.Last("noinfo")
	}()
	if rpanic != nil {
		t.Fatalf("REPLAY-CONFIRMED: reading the history of a release whose stored record has no \"info\" section panics: %s", fmt.Sprint(rpanic))
	}
	if rerr != nil {
		t.Logf("REPLAY-NOT-REPRODUCED: the record is rejected when it is read: %v", rerr)
		return
	}

	var panicked interface{}
	var uerr error
	func() {
		defer func() { panicked = recover() }()
		_, uerr = NewUninstall(cfg).Run("noinfo")
	}()
	if panicked != nil {
		t.Fatalf("REPLAY-CONFIRMED: uninstalling a release whose stored record has no \"info\" section panics: %s", fmt.Sprint(panicked))
	}
	t.Logf("REPLAY-NOT-REPRODUCED: uninstall returned %v", uerr)
}
