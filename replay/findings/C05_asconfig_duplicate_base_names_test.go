package engine

// Demonstration for finding C05/files.AsConfig, files.AsSecrets: the chart's files are keyed by
// their base name while ranging over a map, so for two files with the same base name (in
// different directories) the one that ends up in the ConfigMap/Secret data depends on map
// iteration order: the same chart renders differently from run to run.
// Injected with `go test -overlay`; never written into /repo.

import (
	"testing"
)

func TestVerifReplayAsConfigDuplicateBaseNames(t *testing.T) {
	seenC := map[string]int{}
	seenS := map[string]int{}
	for i := 0; i < 200; i++ {
		f := files{
			"conf/a/app.conf": []byte("from-a"),
			"conf/b/app.conf": []byte("from-b"),
			"conf/c/app.conf": []byte("from-c"),
			"conf/d/app.conf": []byte("from-d"),
		}
		seenC[f.AsConfig()]++
		seenS[f.AsSecrets()]++
	}
	if len(seenC) > 1 || len(seenS) > 1 {
		t.Fatalf("REPLAY-CONFIRMED: 200 calls on the same set of chart files gave %d different AsConfig results and %d different AsSecrets results", len(seenC), len(seenS))
	}
	t.Log("REPLAY-NOT-REPRODUCED: AsConfig and AsSecrets gave one result each")
}
