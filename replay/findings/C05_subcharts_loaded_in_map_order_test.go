package loader

// Demonstration for finding C05/LoadFiles: the sub-charts found under charts/ are added to the
// parent in the iteration order of a map, so Chart.Dependencies() — and with it the order of the
// CRD objects that `--include-crds` writes into the manifest — differs from load to load.
// Injected with `go test -overlay`; never written into /repo.

import (
	"strings"
	"testing"
)

func TestVerifReplaySubchartsLoadedInMapOrder(t *testing.T) {
	mk := func() []*BufferedFile {
		files := []*BufferedFile{{Name: "Chart.yaml", Data: []byte("apiVersion: v2\nname: parent\nversion: 0.1.0\n")}}
		for _, n := range []string{"alpha", "bravo", "charlie", "delta"} {
			files = append(files,
				&BufferedFile{Name: "charts/" + n + "/Chart.yaml", Data: []byte("apiVersion: v2\nname: " + n + "\nversion: 0.1.0\n")},
				&BufferedFile{Name: "charts/" + n + "/crds/crd.yaml", Data: []byte("kind: CustomResourceDefinition\nmetadata:\n  name: " + n + "\n")})
		}
		return files
	}
	seen := map[string]int{}
	first := ""
	for i := 0; i < 100; i++ {
		c, err := LoadFiles(mk())
		if err != nil {
			t.Fatalf("load failed: %v", err)
		}
		var names []string
		for _, crd := range c.CRDObjects() {
			names = append(names, crd.Filename)
		}
		order := strings.Join(names, " ")
		if i == 0 {
			first = order
		}
		seen[order]++
	}
	if len(seen) > 1 {
		t.Fatalf("REPLAY-CONFIRMED: 100 loads of the same files gave %d different orders of the chart's CRD objects (first: %s)", len(seen), first)
	}
	t.Logf("REPLAY-NOT-REPRODUCED: every load gave %s", first)
}
