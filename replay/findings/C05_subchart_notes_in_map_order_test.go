package action

// Demonstration for finding C05/renderResources: with SubNotes the NOTES.txt files of the parent
// chart and of its sub-charts are concatenated in the iteration order of the rendered-files map,
// so the notes text of one and the same chart with the same values differs from run to run.
// Injected with `go test -overlay`; never written into /repo.

import (
	"testing"
)

func TestVerifReplaySubchartNotesInMapOrder(t *testing.T) {
	seen := map[string]int{}
	first := ""
	for i := 0; i < 200; i++ {
		inst := installAction(t)
		inst.ReleaseName = "replay-notes"
		inst.SubNotes = true
		inst.DryRun = true
		ch := buildChart(withNotes("parent"),
			withDependency(withName("suba"), withNotes("child-a")),
			withDependency(withName("subb"), withNotes("child-b")))
		rel, err := inst.Run(ch, map[string]interface{}{})
		if err != nil {
			t.Fatalf("dry-run install failed: %v", err)
		}
		if i == 0 {
			first = rel.Info.Notes
		}
		seen[rel.Info.Notes]++
	}
	if len(seen) > 1 {
		t.Fatalf("REPLAY-CONFIRMED: 200 dry-run installs of the same chart with the same values produced %d different notes texts (first: %q)", len(seen), first)
	}
	t.Logf("REPLAY-NOT-REPRODUCED: every run produced %q", first)
}
