package util

// Demonstration for finding C11/coalesceGlobals: the parent's global tables are handed down to a subchart
// through a shallow copy, so when the subchart's own defaults add keys to a *nested* global table, they
// are written into the parent's table: the parent and the sibling subcharts see one subchart's defaults.
// Injected with `go test -overlay`; never written into /repo.

import (
	"testing"

	chart "helm.sh/helm/v4/pkg/chart/v2"
)

func TestVerifReplayNestedGlobalDefaultsLeak(t *testing.T) {
	mk := func(name string, vals map[string]interface{}) *chart.Chart {
		return &chart.Chart{Metadata: &chart.Metadata{APIVersion: "v2", Name: name, Version: "0.1.0"}, Values: vals}
	}
	suba := mk("suba", map[string]interface{}{"global": map[string]interface{}{"shared": map[string]interface{}{"deep": map[string]interface{}{"fromA": "only-a"}}}})
	subb := mk("subb", map[string]interface{}{})
	parent := mk("parent", map[string]interface{}{"global": map[string]interface{}{"shared": map[string]interface{}{"deep": map[string]interface{}{"fromParent": "p"}}}})
	parent.AddDependency(suba, subb)

	vals, err := CoalesceValues(parent, map[string]interface{}{})
	if err != nil {
		t.Fatal(err)
	}
	dig := func(m map[string]interface{}, path ...string) (interface{}, bool) {
		var cur interface{} = m
		for _, p := range path {
			mm, ok := cur.(map[string]interface{})
			if !ok {
				return nil, false
			}
			cur, ok = mm[p]
			if !ok {
				return nil, false
			}
		}
		return cur, true
	}
	_, inParent := dig(vals, "global", "shared", "deep", "fromA")
	_, inSibling := dig(vals, "subb", "global", "shared", "deep", "fromA")
	if inParent || inSibling {
		t.Fatalf("REPLAY-CONFIRMED: subchart suba's own default global.shared.deep.fromA shows up in the parent's globals (%v) and in sibling subb's globals (%v)", inParent, inSibling)
	}
	t.Log("REPLAY-NOT-REPRODUCED: suba's nested global default stays in suba")
}
