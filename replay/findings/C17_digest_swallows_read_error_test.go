package provenance

// Demonstration for finding C17/Digest: a read error while hashing must be reported, not turned
// into an empty digest with a nil error (ClearSign would sign "sha256:" for the chart, and the
// signed chart can never verify). Injected with `go test -overlay`; never written into /repo.

import (
	"errors"
	"testing"
)

type failingReader struct{ n int }

func (f *failingReader) Read(p []byte) (int, error) {
	if f.n == 0 {
		f.n++
		copy(p, "abc")
		return 3, nil
	}
	return 0, errors.New("disk read error")
}

func TestVerifReplayDigestSwallowsReadError(t *testing.T) {
	sum, err := Digest(&failingReader{})
	if err == nil {
		t.Fatalf("REPLAY-CONFIRMED: Digest returned (%q, nil) although reading the stream failed", sum)
	}
	t.Logf("REPLAY-NOT-REPRODUCED: Digest reports %v", err)
}
