package action

// Demonstration for finding C03/(*Upgrade).failRelease: with --atomic and --cleanup-on-fail, when
// the deletion of the newly created resources fails, failRelease returns at once and the rollback
// that --atomic promises never happens: the failed upgrade ends without a new deployed revision.
// Injected with `go test -overlay`; never written into /repo.

import (
	"fmt"
	"io"
	"testing"

	"k8s.io/cli-runtime/pkg/resource"

	"helm.sh/helm/v4/pkg/kube"
	kubefake "helm.sh/helm/v4/pkg/kube/fake"
	release "helm.sh/helm/v4/pkg/release/v1"
)

// the upgrade creates one new resource; deleting it again fails
type replayCreatedThenUndeletable struct {
	*kubefake.FailingKubeClient
}

func (c *replayCreatedThenUndeletable) Update(_, _ kube.ResourceList, _ bool) (*kube.Result, error) {
	return &kube.Result{Created: kube.ResourceList{&resource.Info{Name: "newly-created", Namespace: "spaced"}}}, nil
}

func (c *replayCreatedThenUndeletable) Delete(kube.ResourceList) (*kube.Result, []error) {
	return nil, []error{fmt.Errorf("the server refused to delete the resource")}
}

func TestVerifReplayAtomicUpgradeSkipsRollbackWhenCleanupFails(t *testing.T) {
	upAction := upgradeAction(t)
	failer := upAction.cfg.KubeClient.(*kubefake.FailingKubeClient)
	failer.WatchUntilReadyError = fmt.Errorf("post-upgrade hook never became ready")
	failer.PrintingKubeClient = kubefake.PrintingKubeClient{Out: io.Discard, LogOutput: io.Discard}
	upAction.cfg.KubeClient = &replayCreatedThenUndeletable{failer}
	upAction.Atomic = true
	upAction.CleanupOnFail = true

	rel := releaseStub()
	rel.Name = "replay-atomic-cleanup"
	rel.Info.Status = release.StatusDeployed
	if err := upAction.cfg.Releases.Create(rel); err != nil {
		t.Fatal(err)
	}
	_, err := upAction.Run(rel.Name, buildChart(), map[string]interface{}{})
	if err == nil {
		t.Fatal("the upgrade did not fail: not the scenario")
	}
	hist, herr := upAction.cfg.Releases.History(rel.Name)
	if herr != nil {
		t.Fatal(herr)
	}
	desc := ""
	rolledBack := false
	for _, r := range hist {
		desc += fmt.Sprintf(" v%d=%s", r.Version, r.Info.Status)
		if r.Version > 2 {
			rolledBack = true
		}
	}
	if !rolledBack {
		t.Fatalf("REPLAY-CONFIRMED: an --atomic upgrade failed (%v) and no rollback was attempted: history is%s (no revision after the failed one)", err, desc)
	}
	t.Log("REPLAY-NOT-REPRODUCED: history:" + desc)
}
