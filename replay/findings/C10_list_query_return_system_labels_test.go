package driver

// Demonstration for finding C10/Secrets.List, Secrets.Query, ConfigMaps.List, ConfigMaps.Query: the
// release handed back carries the driver's own bookkeeping labels (name, owner, status, version,
// createdAt, modifiedAt) in Labels, unlike Get and unlike the memory driver: a release read back
// through List/Query does not equal the release stored.
// Injected with `go test -overlay`; never written into /repo.

import (
	"fmt"
	"reflect"
	"testing"

	rspb "helm.sh/helm/v4/pkg/release/v1"
)

func TestVerifReplayListQueryReturnSystemLabels(t *testing.T) {
	stored := releaseStub("replay-labels", 1, "default", rspb.StatusDeployed) // user labels key1, key2
	key := testKey(stored.Name, stored.Version)
	all := func(*rspb.Release) bool { return true }
	want := map[string]string{"key1": "val1", "key2": "val2"}
	bad := ""
	check := func(what string, got []*rspb.Release, err error) {
		if err != nil || len(got) != 1 {
			t.Fatalf("%s: unexpected result (%d releases, %v)", what, len(got), err)
		}
		if !reflect.DeepEqual(got[0].Labels, want) {
			bad += fmt.Sprintf(" %s returns Labels=%v;", what, got[0].Labels)
		}
	}

	secrets := newTestFixtureSecrets(t, stored)
	if r, err := secrets.Get(key); err != nil || !reflect.DeepEqual(r.Labels, want) {
		t.Fatalf("Secrets.Get: unexpected labels %v (%v): not the scenario", r.Labels, err)
	}
	l, err := secrets.List(all)
	check("Secrets.List", l, err)
	q, err := secrets.Query(map[string]string{"name": stored.Name, "owner": "helm"})
	check("Secrets.Query", q, err)

	cfgmaps := newTestFixtureCfgMaps(t, stored)
	l, err = cfgmaps.List(all)
	check("ConfigMaps.List", l, err)
	q, err = cfgmaps.Query(map[string]string{"name": stored.Name, "owner": "helm"})
	check("ConfigMaps.Query", q, err)

	if bad != "" {
		t.Fatalf("REPLAY-CONFIRMED: the release was stored with Labels=%v and Get returns exactly those, but%s", want, bad)
	}
	t.Log("REPLAY-NOT-REPRODUCED: List and Query return the user labels only")
}
