package action

// Demonstration for finding C03/performRollback: when a rollback hook fails (or any other error
// path of performRollback that does not set the status itself is taken), the revision that
// Rollback.Run created must be recorded as failed — never left pending-rollback.
// Injected with `go test -overlay`; never written into /repo.

import (
	"fmt"
	"io"
	"testing"

	kubefake "helm.sh/helm/v4/pkg/kube/fake"
	release "helm.sh/helm/v4/pkg/release/v1"
)

func TestVerifReplayRollbackHookFailureLeavesPending(t *testing.T) {
	cfg := actionConfigFixture(t)
	failer := cfg.KubeClient.(*kubefake.FailingKubeClient)
	failer.WatchUntilReadyError = fmt.Errorf("hook never became ready")
	failer.PrintingKubeClient = kubefake.PrintingKubeClient{Out: io.Discard, LogOutput: io.Discard}

	name := "replay-rollback-hook"
	mk := func(v int, st release.Status) *release.Release {
		r := namedReleaseStub(name, st)
		r.Version = v
		r.Hooks[0].Events = []release.HookEvent{release.HookPreRollback}
		return r
	}
	if err := cfg.Releases.Create(mk(1, release.StatusSuperseded)); err != nil {
		t.Fatal(err)
	}
	if err := cfg.Releases.Create(mk(2, release.StatusDeployed)); err != nil {
		t.Fatal(err)
	}

	rb := NewRollback(cfg)
	rb.Version = 1
	err := rb.Run(name)
	if err == nil {
		t.Fatal("rollback with a failing pre-rollback hook reported success")
	}
	hist, herr := cfg.Releases.History(name)
	if herr != nil {
		t.Fatal(herr)
	}
	desc := ""
	bad := ""
	for _, r := range hist {
		desc += fmt.Sprintf(" v%d=%s", r.Version, r.Info.Status)
		if r.Version == 3 && r.Info.Status != release.StatusFailed {
			bad = r.Info.Status.String()
		}
	}
	if bad != "" {
		t.Fatalf("REPLAY-CONFIRMED: rollback failed (%v) but the revision it created is recorded as %q, not failed (history:%s)", err, bad, desc)
	}
	t.Log("REPLAY-NOT-REPRODUCED: history:" + desc)
}
