package driver

// Demonstration for finding C10/Memory.Get, Memory.Delete: a release whose (valid) name contains
// ".v" is created by the memory driver but can then neither be read nor deleted — the key is
// split at every ".v" and a key with more than one is rejected as invalid.
// Injected with `go test -overlay`; never written into /repo.

import (
	"testing"

	rspb "helm.sh/helm/v4/pkg/release/v1"
)

func TestVerifReplayMemoryNameWithDotV(t *testing.T) {
	name := "a.v1" // passes chartutil.ValidateReleaseName
	key := "sh.helm.release.v1." + name + ".v1"
	mem := NewMemory()
	if err := mem.Create(key, releaseStub(name, 1, "default", rspb.StatusDeployed)); err != nil {
		t.Fatalf("create failed: %v", err)
	}
	if got, err := mem.Get(key); err != nil || got == nil || got.Name != name {
		t.Fatalf("REPLAY-CONFIRMED: release %q was created under key %q, but Get(%q) returns (%v, %v)", name, key, key, got, err)
	}
	if got, err := mem.Delete(key); err != nil || got == nil || got.Name != name {
		t.Fatalf("REPLAY-CONFIRMED: release %q is stored under key %q, but Delete(%q) returns (%v, %v)", name, key, key, got, err)
	}
	t.Log("REPLAY-NOT-REPRODUCED: a release whose name contains .v is found and deleted")
}
