package driver

// Demonstration for finding C20/(*Secrets).Get: a stored Secret whose "release" payload cannot be
// decoded must make Get return an error, not panic with a nil-pointer dereference.
// Injected with `go test -overlay`; never written into /repo.

import (
	"testing"

	v1 "k8s.io/api/core/v1"
	metav1 "k8s.io/apimachinery/pkg/apis/meta/v1"
)

func TestVerifReplaySecretsGetUndecodable(t *testing.T) {
	var mock MockSecretsInterface
	mock.Init(t)
	mock.objects["sh.helm.release.v1.broken.v1"] = &v1.Secret{
		ObjectMeta: metav1.ObjectMeta{Name: "sh.helm.release.v1.broken.v1", Labels: map[string]string{"owner": "helm"}},
		Data:       map[string][]byte{"release": []byte("%%% not base64 %%%")},
	}
	secrets := NewSecrets(&mock)
	defer func() {
		if r := recover(); r != nil {
			t.Fatalf("REPLAY-CONFIRMED: Secrets.Get panicked on an undecodable record: %v", r)
		}
	}()
	rls, err := secrets.Get("sh.helm.release.v1.broken.v1")
	if err == nil || rls != nil {
		t.Fatalf("expected an error and no release, got %v, %v", rls, err)
	}
	t.Log("REPLAY-NOT-REPRODUCED: error returned: ", err)
}
